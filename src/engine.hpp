// Common engine for the rapidcheck-driven checks.  No PhQ header is included here: every check is a pure
// function of a generic, serialisable Case (integers, real numbers as long double, strings); the
// rapidcheck property and the replay path call the same function.
#pragma once
#include <rapidcheck.h>
#include <quadmath.h>
#include <unistd.h>
#include <csignal>
#include <cstdarg>
#include <cmath>
#include <cstdint>
#include <cstdio>
#include <cstdlib>
#include <cstring>
#include <chrono>
#include <functional>
#include <map>
#include <set>
#include <sstream>
#include <string>
#include <tuple>
#include <unordered_set>
#include <vector>

namespace vf {
using LD = long double;
using Q = __float128;

// ------------------------------------------------------------------------------------------------
// numeric types under test: 0 float, 1 double, 2 long double
struct NTInfo { const char* name; int mant; int emin; int emax; };
inline const NTInfo& ntinfo(int nt) {
  static const NTInfo t[3] = {{"float", 24, -126, 127}, {"double", 53, -1022, 1023}, {"long double", 64, -16382, 16383}};
  return t[nt];
}
inline LD round_to(int nt, LD v) { return nt == 0 ? (LD)(float)v : nt == 1 ? (LD)(double)v : v; }
inline LD eps_of(int nt) { return std::ldexp((LD)1, 1 - ntinfo(nt).mant); }  // spacing at 1
// spacing of type nt at magnitude |x| (normal range)
inline LD ulp_at(int nt, LD x) {
  x = std::fabs(x);
  if (x == 0 || !std::isfinite(x)) return std::ldexp((LD)1, ntinfo(nt).emin - ntinfo(nt).mant + 1);
  int e; std::frexp(x, &e); e -= 1;
  if (e < ntinfo(nt).emin) e = ntinfo(nt).emin;
  return std::ldexp((LD)1, e - ntinfo(nt).mant + 1);
}
inline Q ulp_at_q(int nt, Q x) {
  x = fabsq(x);
  if (x == 0) return ldexpq(1, ntinfo(nt).emin - ntinfo(nt).mant + 1);
  int e; frexpq(x, &e); e -= 1;
  if (e < ntinfo(nt).emin) e = ntinfo(nt).emin;
  return ldexpq(1, e - ntinfo(nt).mant + 1);
}
inline double err_ulps(int nt, LD got, Q exact, Q scale) {
  Q d = fabsq((Q)got - exact);
  return (double)(d / ulp_at_q(nt, scale));
}
inline uint64_t bits_of(int nt, LD v) {  // bit pattern of v in type nt (for bit-equality incl. signed zero)
  if (nt == 0) { float f = (float)v; uint32_t b; std::memcpy(&b, &f, 4); return b; }
  if (nt == 1) { double f = (double)v; uint64_t b; std::memcpy(&b, &f, 8); return b; }
  uint64_t b[2] = {0, 0}; std::memcpy(b, &v, 10); return b[0] ^ (b[1] * 0x9E3779B97F4A7C15ull);
}
inline bool same_bits(int nt, LD a, LD b) {
  if (nt == 2) { unsigned char x[10], y[10]; std::memcpy(x, &a, 10); std::memcpy(y, &b, 10); return std::memcmp(x, y, 10) == 0; }
  return bits_of(nt, a) == bits_of(nt, b);
}
inline std::string hexld(LD v) { char b[64]; std::snprintf(b, sizeof b, "%La", v); return b; }
inline std::string decld(LD v) { char b[64]; std::snprintf(b, sizeof b, "%.21Lg", v); return b; }
inline std::string qstr(Q v) { char b[96]; quadmath_snprintf(b, sizeof b, "%.30Qg", v); return b; }

// ------------------------------------------------------------------------------------------------
struct Case {
  std::vector<long long> i;
  std::vector<LD> r;
  std::vector<std::string> s;
};
inline std::string hexstr(const std::string& s) {
  static const char* d = "0123456789abcdef"; std::string o;
  for (unsigned char c : s) { o += d[c >> 4]; o += d[c & 15]; }
  return o;
}
inline std::string unhex(const std::string& h) {
  std::string o;
  for (size_t k = 0; k + 1 < h.size(); k += 2) o += (char)std::stoi(h.substr(k, 2), nullptr, 16);
  return o;
}
inline std::string encode(const Case& c) {
  std::string o = "i:";
  for (size_t k = 0; k < c.i.size(); k++) { if (k) o += ','; o += std::to_string(c.i[k]); }
  o += "|r:";
  for (size_t k = 0; k < c.r.size(); k++) { if (k) o += ','; o += hexld(c.r[k]); }
  o += "|s:";
  for (size_t k = 0; k < c.s.size(); k++) { if (k) o += ','; o += "x" + hexstr(c.s[k]); }
  return o;
}
inline std::vector<std::string> split(const std::string& s, char d) {
  std::vector<std::string> o; std::string cur;
  for (char c : s) { if (c == d) { o.push_back(cur); cur.clear(); } else cur += c; }
  o.push_back(cur); return o;
}
inline Case decode(const std::string& s) {
  Case c; auto parts = split(s, '|');
  for (auto& p : parts) {
    if (p.size() < 2) continue;
    std::string body = p.substr(2);
    if (body.empty()) continue;
    auto f = split(body, ',');
    if (p[0] == 'i') for (auto& x : f) c.i.push_back(std::stoll(x));
    if (p[0] == 'r') for (auto& x : f) c.r.push_back(std::strtold(x.c_str(), nullptr));
    if (p[0] == 's') for (auto& x : f) c.s.push_back(unhex(x.substr(1)));
  }
  return c;
}
inline uint64_t fnv(const std::string& s) { uint64_t h = 1469598103934665603ull; for (unsigned char c : s) { h ^= c; h *= 1099511628211ull; } return h; }

struct Verdict {
  bool ok = true;
  bool discard = false;      // input outside the domain of the property (counted, never a failure)
  bool nontrivial = false;   // by the sub-check's stated rule
  std::string cls;           // class label for the histogram (may contain several labels separated by ';')
  std::string msg;           // on failure: what was expected / got
  std::string show;          // optional human-readable rendering of the case for samples
  long sub_evals = 0;        // a case that enumerates an inner finite space (all unit pairs ...) reports how many evaluations it made
  long sub_nontrivial = 0;   // ... and how many of them were non-trivial (they are distinct by construction within one case)
  static Verdict fail(const std::string& m) { Verdict v; v.ok = false; v.msg = m; v.nontrivial = true; return v; }
  static Verdict skip(const std::string& why) { Verdict v; v.discard = true; v.cls = "discard:" + why; return v; }
};

struct Sub {
  std::string name;                              // e.g. "c01.convert"
  std::string property;                          // e.g. "C01"
  int instances = 1;                             // enumerated part of the quantifier
  std::function<rc::Gen<Case>(int)> gen;         // generated part, per instance
  std::function<Verdict(const Case&)> run;       // oracle
  long n_quick = 100, n_thorough = 1000;         // cases per instance
  std::string rule;                              // how cases are generated and what is non-trivial
  std::function<std::string(int)> instance_name; // optional
  bool exhaustive = false;
};

// ------------------------------------------------------------------------------------------------
// generators
inline rc::Gen<int> irange(int lo, int hi) {  // inclusive, independent of rapidcheck's size
  if (hi <= lo) return rc::gen::just(lo);
  return rc::gen::resize(100, rc::gen::inRange<int>(lo, hi + 1));
}
inline rc::Gen<uint64_t> u64() { return rc::gen::resize(100, rc::gen::arbitrary<uint64_t>()); }
inline int zigzag_exp(int k, int lo, int hi) {  // k = 0.. hi-lo  ->  exponent, 0 -> centre (closest to 0)
  int c = 0 < lo ? lo : (0 > hi ? hi : 0);
  int up = hi - c, down = c - lo, m = up < down ? up : down;
  if (k <= 2 * m) return c + ((k & 1) ? (k + 1) / 2 : -(k / 2));
  int rest = k - 2 * m;
  return up > down ? c + m + rest : c - m - rest;
}
enum : unsigned { kNeg = 1, kZero = 2 };
// A real number exactly representable in numeric type nt, |x| in [2^elo, 2^(ehi+1)), classes per DESIGN 4.4.
inline LD make_real(int nt, int elo, int ehi, unsigned flags, int cls, int sgn, int k, uint64_t m, int b1, int b2) {
  const int p = ntinfo(nt).mant;
  if (elo < ntinfo(nt).emin) elo = ntinfo(nt).emin;
  if (ehi > ntinfo(nt).emax) ehi = ntinfo(nt).emax;
  int e = zigzag_exp(k % (ehi - elo + 1), elo, ehi);
  LD v;
  if (cls < 60) {  // random mantissa
    uint64_t frac = (p >= 64) ? (m >> 1) : (m >> (64 - (p - 1)));
    v = std::ldexp((LD)1 + std::ldexp((LD)frac, -(p >= 64 ? 63 : p - 1)), e);
  } else if (cls < 75) {  // few bits set
    v = std::ldexp((LD)1 + std::ldexp((LD)1, -(1 + b1 % (p - 1))) + std::ldexp((LD)1, -(1 + b2 % (p - 1))), e);
    v = round_to(nt, v);
  } else if (cls < 83) {  // small integer (scaled into range if 1..16 is outside it)
    LD n = (LD)(1 + (m % 16));
    int ne; std::frexp(n, &ne); ne -= 1;
    int sh = 0; if (ne < elo) sh = elo - ne; if (ne > ehi) sh = ehi - ne;
    v = std::ldexp(n, sh);
  } else if (cls < 90) {  // power of two
    v = std::ldexp((LD)1, e);
  } else {  // edges
    switch (m % 6) {
      case 0: v = std::ldexp((LD)1, elo); break;
      case 1: v = std::ldexp((LD)2 - eps_of(nt), ehi); break;
      case 2: v = (flags & kZero) ? (LD)0 : std::ldexp((LD)1, e); break;
      case 3: v = std::ldexp((LD)1 + eps_of(nt), e); break;
      case 4: v = std::ldexp((LD)2 - eps_of(nt), e); break;
      default: v = std::ldexp((LD)1, zigzag_exp(0, elo, ehi)); break;
    }
  }
  if ((flags & kNeg) && sgn) v = -v;
  return v;
}
inline rc::Gen<LD> gen_real(int nt, int elo, int ehi, unsigned flags = kNeg) {
  if (elo < ntinfo(nt).emin) elo = ntinfo(nt).emin;
  if (ehi > ntinfo(nt).emax) ehi = ntinfo(nt).emax;
  return rc::gen::map(
      rc::gen::tuple(irange(0, 99), irange(0, 1), irange(0, ehi - elo), u64(), irange(0, 62), irange(0, 62)),
      [=](const std::tuple<int, int, int, uint64_t, int, int>& t) {
        return make_real(nt, elo, ehi, flags, std::get<0>(t), std::get<1>(t), std::get<2>(t), std::get<3>(t), std::get<4>(t), std::get<5>(t));
      });
}
inline rc::Gen<std::vector<LD>> gen_reals(int n, int nt, int elo, int ehi, unsigned flags = kNeg) {
  return rc::gen::container<std::vector<LD>>((size_t)n, gen_real(nt, elo, ehi, flags));
}
// class label of a real for histograms
inline std::string real_class(LD v) {
  if (v == 0) return "zero";
  int e; std::frexp(std::fabs(v), &e); e -= 1;
  std::string s = v < 0 ? "neg" : "pos";
  int b = e < -64 ? -2 : e < -8 ? -1 : e <= 8 ? 0 : e <= 64 ? 1 : 2;
  static const char* bn[] = {"/tiny", "/small", "/unit", "/large", "/huge"};
  return s + bn[b + 2];
}

// ------------------------------------------------------------------------------------------------
// evidence
struct Evidence {
  long evaluations = 0, discards = 0, nontrivial_count = 0;
  std::unordered_set<uint64_t> nontrivial;
  std::map<std::string, long> classes;
  std::vector<std::string> samples;
  std::map<std::string, long> per_sub_eval;
  std::map<std::string, long> per_sub_nontrivial;
  std::map<std::string, std::string> rules;
  std::vector<std::string> fails;  // "sub\tcase\tmsg"
  std::vector<std::string> notes;
  std::vector<std::string> harness_errors;  // generator gave up, engine errors: never a violation, the run is an ERROR
  bool exhaustive_all = true;
};
inline Evidence& ev() { static Evidence e; return e; }

inline std::string jesc(const std::string& s) {
  std::string o;
  for (unsigned char c : s) {
    if (c == '"') o += "\\\""; else if (c == '\\') o += "\\\\"; else if (c == '\n') o += "\\n"; else if (c == '\t') o += "\\t";
    else if (c < 0x20) { char b[8]; std::snprintf(b, sizeof b, "\\u%04x", c); o += b; } else o += (char)c;
  }
  return o;
}

// current case, for crash attribution (sanitizer aborts, signals)
inline char* cur_buf() { static char b[1 << 16]; return b; }
inline void set_current(const std::string& sub, const std::string& enc) {
  std::snprintf(cur_buf(), 1 << 16, "CRASH sub=%s case=%s\n", sub.c_str(), enc.c_str());
}
extern "C" void __sanitizer_set_death_callback(void (*)(void)) __attribute__((weak));
inline void crash_dump() { size_t n = std::strlen(cur_buf()); if (n) { ssize_t w = write(1, cur_buf(), n); (void)w; } }
inline void on_signal(int sig) { crash_dump(); std::signal(sig, SIG_DFL); raise(sig); }
inline void install_crash_handlers() {
  for (int s : {SIGABRT, SIGSEGV, SIGFPE, SIGBUS, SIGILL}) std::signal(s, on_signal);
  if (__sanitizer_set_death_callback) __sanitizer_set_death_callback(crash_dump);
}

inline Verdict guarded(const Sub& sub, const Case& c) {
  try { return sub.run(c); }
  catch (const std::bad_alloc&) { return Verdict::skip("bad_alloc"); }
  catch (const std::exception& e) { return Verdict::fail(std::string("exception thrown: ") + e.what()); }
  catch (...) { return Verdict::fail("unknown exception thrown"); }
}

inline void account(const Sub& sub, const Case& c, const Verdict& v, const std::string& enc) {
  Evidence& E = ev();
  const long units = v.sub_evals > 0 ? v.sub_evals : 1;
  E.evaluations += units; E.per_sub_eval[sub.name] += units;
  if (v.discard) { E.discards++; E.classes[sub.name + ":" + v.cls]++; return; }
  if (!v.cls.empty()) for (auto& l : split(v.cls, ';')) E.classes[sub.name + ":" + l]++;
  if (v.nontrivial) {
    const bool fresh = E.nontrivial.insert(fnv(sub.name + enc)).second;
    const long k = v.sub_nontrivial > 0 ? v.sub_nontrivial : 1;
    const long before = E.per_sub_nontrivial[sub.name];
    if (fresh) { E.per_sub_nontrivial[sub.name] += k; E.nontrivial_count += k; }
    // deterministic sample selection: the first non-trivial case of each sub plus a sparse hash-selected few
    if (fresh && (before == 0 || (fnv(enc) % 1024 == 0 && E.samples.size() < 60))) {
      std::string s = "{\"check\":\"" + jesc(sub.name) + "\",\"case\":\"" + jesc(enc) + "\"";
      if (!v.show.empty()) s += ",\"shown\":\"" + jesc(v.show) + "\"";
      if (!v.cls.empty()) s += ",\"class\":\"" + jesc(v.cls) + "\"";
      s += "}";
      E.samples.push_back(s);
    }
  }
  (void)c;
}

inline double env_scale() { const char* s = std::getenv("VERIF_SCALE"); return s ? std::atof(s) : 1.0; }
inline uint64_t env_seed() { const char* s = std::getenv("VERIF_SEED"); uint64_t v = s ? std::strtoull(s, nullptr, 10) : 1; return v ? v : 1; }

inline void run_sub(const Sub& sub, bool thorough) {
  Evidence& E = ev();
  E.rules[sub.name] = sub.rule;
  if (!sub.exhaustive) E.exhaustive_all = false;
  long n = thorough ? sub.n_thorough : sub.n_quick;
  n = (long)std::ceil(n * env_scale()); if (n < 1) n = 1;
  if (const char* mx = std::getenv("VERIF_MAXN")) { const long m = std::atol(mx); if (m > 0 && n > m) n = m; }
  int recorded = 0;
  int shard_i = 0, shard_n = 1;
  if (const char* sh = std::getenv("VERIF_SHARD")) std::sscanf(sh, "%d/%d", &shard_i, &shard_n);
  for (int inst = 0; inst < sub.instances; inst++) {
    if (shard_n > 1 && inst % shard_n != shard_i) continue;
    rc::detail::TestParams params;
    params.seed = env_seed() * 1000003ull + fnv(sub.name) % 1000003ull + (uint64_t)inst * 7919ull;
    params.maxSuccess = (int)n;
    params.maxSize = 100;
    params.maxDiscardRatio = 20;
    rc::detail::TestMetadata md; md.id = sub.name; md.description = sub.name;
    std::string lastFailCase, lastFailMsg;
    auto gen = sub.gen(inst);
    auto result = rc::detail::checkTestable(
        [&]() {
          Case c = *gen;
          std::string enc = encode(c);
          set_current(sub.name, enc);
          Verdict v = guarded(sub, c);
          account(sub, c, v, enc);
          if (v.discard) RC_DISCARD(v.cls);
          if (!v.ok) { lastFailCase = enc; lastFailMsg = v.msg; RC_FAIL(v.msg); }
        },
        md, params);
    cur_buf()[0] = 0;
    if (result.template is<rc::detail::FailureResult>()) {
      if (recorded < 5) E.fails.push_back(sub.name + "\t" + lastFailCase + "\t" + lastFailMsg);
      recorded++;
      if (recorded >= 25) { E.notes.push_back(sub.name + ": stopped after 25 failing instances"); break; }
    } else if (result.template is<rc::detail::GaveUpResult>()) {
      E.notes.push_back(sub.name + " instance " + std::to_string(inst) + ": generator gave up (too many discards)");
      E.harness_errors.push_back(sub.name + ": generator gave up: too many discarded cases for instance " + (sub.instance_name ? sub.instance_name(inst) : std::to_string(inst)));
    } else if (result.template is<rc::detail::Error>()) {
      E.harness_errors.push_back(sub.name + ": engine error: " + result.template get<rc::detail::Error>().description);
    }
  }
}

inline void write_result(const std::string& path, double wall) {
  Evidence& E = ev();
  FILE* f = std::fopen(path.c_str(), "w");
  if (!f) { std::perror("VERIF_OUT"); std::exit(3); }
  std::fprintf(f, "{\n \"evaluations\": %ld,\n \"discards\": %ld,\n \"distinct_nontrivial\": %ld,\n \"wall_s\": %.3f,\n", E.evaluations, E.discards, E.nontrivial_count, wall);
  std::fprintf(f, " \"exhaustive\": %s,\n", E.exhaustive_all ? "true" : "false");
  std::fprintf(f, " \"rules\": {");
  { bool first = true; for (auto& kv : E.rules) { std::fprintf(f, "%s\n  \"%s\": \"%s\"", first ? "" : ",", jesc(kv.first).c_str(), jesc(kv.second).c_str()); first = false; } }
  std::fprintf(f, "\n },\n \"per_check\": {");
  { bool first = true; for (auto& kv : E.per_sub_eval) { std::fprintf(f, "%s\n  \"%s\": {\"evaluations\": %ld, \"distinct_nontrivial\": %ld}", first ? "" : ",", jesc(kv.first).c_str(), kv.second, E.per_sub_nontrivial[kv.first]); first = false; } }
  std::fprintf(f, "\n },\n \"classes\": {");
  { bool first = true; for (auto& kv : E.classes) { std::fprintf(f, "%s\n  \"%s\": %ld", first ? "" : ",", jesc(kv.first).c_str(), kv.second); first = false; } }
  std::fprintf(f, "\n },\n \"samples\": [");
  for (size_t k = 0; k < E.samples.size(); k++) std::fprintf(f, "%s\n  %s", k ? "," : "", E.samples[k].c_str());
  std::fprintf(f, "\n ],\n \"notes\": [");
  for (size_t k = 0; k < E.notes.size(); k++) std::fprintf(f, "%s\n  \"%s\"", k ? "," : "", jesc(E.notes[k]).c_str());
  std::fprintf(f, "\n ],\n \"harness_errors\": [");
  for (size_t k = 0; k < E.harness_errors.size(); k++) std::fprintf(f, "%s\n  \"%s\"", k ? "," : "", jesc(E.harness_errors[k]).c_str());
  std::fprintf(f, "\n ],\n \"fails\": [");
  for (size_t k = 0; k < E.fails.size(); k++) {
    auto p = split(E.fails[k], '\t');
    std::fprintf(f, "%s\n  {\"check\": \"%s\", \"case\": \"%s\", \"msg\": \"%s\"}", k ? "," : "", jesc(p[0]).c_str(), jesc(p.size() > 1 ? p[1] : "").c_str(), jesc(p.size() > 2 ? p[2] : "").c_str());
  }
  std::fprintf(f, "\n ]\n}\n");
  std::fclose(f);
}

// main for every engine binary:
//   <bin> run <quick|thorough> [PROPERTY or sub-name prefix ...]      (env: VERIF_SEED, VERIF_OUT, VERIF_SCALE)
//   <bin> replay <sub-name> <case>                                     exit 0 = passes now, 1 = fails (prints msg)
//   <bin> list

// narrowing nt -> t2: moves every component onto (d = 0) or one source-ulp beside (d = -1, +1) a rounding tie of the target type; k selects the pattern of d
inline void to_rounding_ties(std::vector<LD>& r, int nt, int t2, int k) {
  for (auto& x : r) {
    if (x == 0 || !std::isfinite(x)) continue;
    const LD y = round_to(t2, x), m = y + (x < 0 ? -1 : 1) * ulp_at(t2, y) / 2;     // y + half an ulp of the target type: exact in the (wider) source type
    const int d = (k % 3) - 1; k = k / 3 + (k % 3) * 2 + 1;
    const LD v = round_to(nt, m + d * ulp_at(nt, m));
    if (std::isfinite(v) && std::fabs(v) < std::ldexp((LD)1, ntinfo(t2).emax) && std::fabs(v) > std::ldexp((LD)1, ntinfo(t2).emin + 1)) x = v;
  }
}

inline int engine_main(int argc, char** argv, const std::vector<Sub>& subs) {
  install_crash_handlers();
  setvbuf(stdout, nullptr, _IOLBF, 0);
  std::string mode = argc > 1 ? argv[1] : "";
  if (mode == "list") { for (auto& s : subs) std::printf("%s %s instances=%d\n", s.property.c_str(), s.name.c_str(), s.instances); return 0; }
  if (mode == "replay" && argc >= 4) {
    for (auto& s : subs) if (s.name == argv[2]) {
      Case c = decode(argv[3]);
      set_current(s.name, argv[3]);
      Verdict v = guarded(s, c);
      if (v.discard) { std::printf("REPLAY discard %s\n", v.cls.c_str()); return 0; }
      if (!v.ok) { std::printf("REPLAY fail %s\n", v.msg.c_str()); return 1; }
      std::printf("REPLAY pass\n"); return 0;
    }
    std::printf("REPLAY unknown check %s\n", argv[2]); return 2;
  }
  if (mode == "run" && argc >= 3) {
    bool thorough = std::string(argv[2]) == "thorough";
    auto t0 = std::chrono::steady_clock::now();
    std::string skip = std::getenv("VERIF_SKIP") ? std::string(",") + std::getenv("VERIF_SKIP") + "," : "";
    for (auto& s : subs) {
      if (skip.find("," + s.name + ",") != std::string::npos) continue;
      bool sel = argc == 3;
      for (int a = 3; a < argc; a++) if (s.property == argv[a] || s.name.rfind(argv[a], 0) == 0) sel = true;
      if (!sel) continue;
      auto t1 = std::chrono::steady_clock::now();
      run_sub(s, thorough);
      double dt = std::chrono::duration<double>(std::chrono::steady_clock::now() - t1).count();
      std::fprintf(stderr, "[engine] %s: %ld evaluations, %.1fs\n", s.name.c_str(), ev().per_sub_eval[s.name], dt);
    }
    double wall = std::chrono::duration<double>(std::chrono::steady_clock::now() - t0).count();
    const char* out = std::getenv("VERIF_OUT");
    write_result(out ? out : "/dev/stdout", wall);
    for (auto& f : ev().fails) { auto p = split(f, '\t'); std::printf("FAIL sub=%s case=%s msg=%s\n", p[0].c_str(), p.size() > 1 ? p[1].c_str() : "", p.size() > 2 ? p[2].c_str() : ""); }
    for (auto& h : ev().harness_errors) std::printf("HARNESS %s\n", h.c_str());
    return ev().fails.empty() ? (ev().harness_errors.empty() ? 0 : 1) : 1;
  }
  std::fprintf(stderr, "usage: %s run <quick|thorough> [filter...] | replay <check> <case> | list\n", argv[0]);
  return 2;
}

inline std::string fmt(const char* f, ...) __attribute__((format(printf, 1, 2)));
inline std::string fmt(const char* f, ...) {
  char b[2048]; va_list ap; va_start(ap, f); std::vsnprintf(b, sizeof b, f, ap); va_end(ap); return b;
}
}  // namespace vf
