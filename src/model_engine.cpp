// C12 (elastic isotropic solid), C13 (Newtonian fluids) and the constitutive-model part of C14.
#include <PhQ/ConstitutiveModel/CompressibleNewtonianFluid.hpp>
#include <PhQ/ConstitutiveModel/ElasticIsotropicSolid.hpp>
#include <PhQ/ConstitutiveModel/IncompressibleNewtonianFluid.hpp>
#include <memory>
#include <set>
#include <unordered_set>
#include "engine.hpp"

using namespace vf;
using PhQ::ConstitutiveModel;
constexpr auto Pa = PhQ::Unit::Pressure::Pascal;
constexpr auto PaS = PhQ::Unit::DynamicViscosity::PascalSecond;
constexpr auto Hz = PhQ::Unit::Frequency::Hertz;

template <class T> static PhQ::SymmetricDyad<T> sd(const LD* c) { return PhQ::SymmetricDyad<T>((T)c[0], (T)c[1], (T)c[2], (T)c[3], (T)c[4], (T)c[5]); }
template <class T> static void fl6(const PhQ::SymmetricDyad<T>& v, LD* o) { o[0] = v.xx(); o[1] = v.xy(); o[2] = v.xz(); o[3] = v.yy(); o[4] = v.yz(); o[5] = v.zz(); }
static std::string cs(const LD* v, int n) { std::string s = "("; for (int i = 0; i < n; i++) { if (i) s += ", "; s += decld(v[i]); } return s + ")"; }
static const bool kDiag[6] = {true, false, false, true, false, true};

// ================================================================================================ elastic isotropic solid
static const char* kPairName[20] = {"(E, nu)", "(E, G)", "(E, K_s)", "(E, K_T)", "(E, lambda)", "(E, M)", "(G, nu)", "(G, K_s)", "(G, K_T)", "(G, lambda)", "(G, M)", "(K_s, lambda)", "(K_T, lambda)", "(K_s, M)", "(K_T, M)",
                                    "(K_s, nu)", "(K_T, nu)", "(lambda, M)", "(lambda, nu)", "(M, nu)"};
// moduli vector m: 0 E, 1 G, 2 Ks, 3 Kt, 4 lambda, 5 M, 6 nu
static const int kPairIdx[20][2] = {{0, 6}, {0, 1}, {0, 2}, {0, 3}, {0, 4}, {0, 5}, {1, 6}, {1, 2}, {1, 3}, {1, 4}, {1, 5}, {2, 4}, {3, 4}, {2, 5}, {3, 5}, {2, 6}, {3, 6}, {4, 5}, {4, 6}, {5, 6}};
template <class T> static ConstitutiveModel::ElasticIsotropicSolid<T> build_pair(int p, const LD* m) {
  using M = ConstitutiveModel::ElasticIsotropicSolid<T>;
  const PhQ::YoungModulus<T> E((T)m[0], Pa); const PhQ::ShearModulus<T> G((T)m[1], Pa); const PhQ::IsentropicBulkModulus<T> Ks((T)m[2], Pa); const PhQ::IsothermalBulkModulus<T> Kt((T)m[3], Pa);
  const PhQ::LameFirstModulus<T> L((T)m[4], Pa); const PhQ::PWaveModulus<T> Pw((T)m[5], Pa); const PhQ::PoissonRatio<T> N((T)m[6]);
  switch (p) {
    case 0: return M(E, N); case 1: return M(E, G); case 2: return M(E, Ks); case 3: return M(E, Kt); case 4: return M(E, L); case 5: return M(E, Pw); case 6: return M(G, N); case 7: return M(G, Ks); case 8: return M(G, Kt);
    case 9: return M(G, L); case 10: return M(G, Pw); case 11: return M(Ks, L); case 12: return M(Kt, L); case 13: return M(Ks, Pw); case 14: return M(Kt, Pw); case 15: return M(Ks, N); case 16: return M(Kt, N); case 17: return M(L, Pw);
    case 18: return M(L, N); default: return M(Pw, N);
  }
}
template <class T> static void moduli_of(const ConstitutiveModel::ElasticIsotropicSolid<T>& m, LD* o) {
  o[0] = m.YoungModulus().Value(); o[1] = m.ShearModulus().Value(); o[2] = m.IsentropicBulkModulus().Value(); o[3] = m.IsothermalBulkModulus().Value(); o[4] = m.LameFirstModulus().Value(); o[5] = m.PWaveModulus().Value();
  o[6] = m.PoissonRatio().Value();
}
template <class T> static Verdict c12_moduli_t(int nt, LD mu, LD lam, int pair) {
  using M = ConstitutiveModel::ElasticIsotropicSolid<T>;
  const M m0{PhQ::ShearModulus<T>((T)mu, Pa), PhQ::LameFirstModulus<T>((T)lam, Pa)};
  LD mod[7]; moduli_of(m0, mod);
  const Q qm = mod[1], ql = mod[4];
  if ((LD)qm != round_to(nt, mu) || (LD)ql != round_to(nt, lam)) return Verdict::fail(fmt("ElasticIsotropicSolid<%s>(G, lambda) does not store the given moduli", ntinfo(nt).name));
  const Q ref[7] = {qm * (3 * ql + 2 * qm) / (ql + qm), qm, ql + 2 * qm / 3, ql + 2 * qm / 3, ql, ql + 2 * qm, ql / (2 * (ql + qm))};
  static const char* nm[7] = {"YoungModulus", "ShearModulus", "IsentropicBulkModulus", "IsothermalBulkModulus", "LameFirstModulus", "PWaveModulus", "PoissonRatio"};
  for (int i = 0; i < 7; i++) {
    if (ref[i] == 0) { if (mod[i] != 0) return Verdict::fail(fmt("ElasticIsotropicSolid<%s>(G=%s, lambda=%s).%s() = %s, expected 0", ntinfo(nt).name, decld(mu).c_str(), decld(lam).c_str(), nm[i], decld(mod[i]).c_str())); continue; }
    const double e = err_ulps(nt, mod[i], ref[i], ref[i]);
    if (!(e <= 4.0)) return Verdict::fail(fmt("ElasticIsotropicSolid<%s>(G=%s, lambda=%s).%s() = %s, the identities of isotropic elasticity give %s (%.3g ulp, allowed 4)", ntinfo(nt).name, decld(mu).c_str(), decld(lam).c_str(), nm[i],
                                              decld(mod[i]).c_str(), qstr(ref[i]).c_str(), e));
  }
  // rebuild from the reported pair
  const LD nu = mod[6];
  Verdict V; V.cls = std::string(ntinfo(nt).name) + ";" + kPairName[pair] + (nu == 0 ? ";nu=0" : nu > 0.49L ? ";nu>0.49" : ";nu-generic");
  if (pair == 18 && lam == 0) { V.cls += ";singular-parametrisation-skipped"; return V; }   // (lambda, nu) at nu = 0 does not determine a material
  const M m1 = build_pair<T>(pair, mod);
  const LD mu1 = m1.ShearModulus().Value(), lam1 = m1.LameFirstModulus().Value();
  const LD scale = std::max(std::fabs((LD)qm), std::fabs((LD)ql));
  if (!std::isfinite(mu1) || !std::isfinite(lam1))
    return Verdict::fail(fmt("ElasticIsotropicSolid<%s> rebuilt from its own %s = (%s, %s) has G = %s, lambda = %s (original G = %s, lambda = %s, nu = %s)", ntinfo(nt).name, kPairName[pair], decld(mod[kPairIdx[pair][0]]).c_str(),
                             decld(mod[kPairIdx[pair][1]]).c_str(), decld(mu1).c_str(), decld(lam1).c_str(), decld(mu).c_str(), decld(lam).c_str(), decld(nu).c_str()));
  // measured conditioning of the pair -> (G, lambda) map.  The reported moduli carry up to 4 ulp of rounding each (checked above), so the
  // map is probed with one-sided perturbations of +-1 and +-4 ulp of each input (a central one-ulp difference does not see the square-root
  // singularity of the (E, M) and (E, lambda) pairs at the end of the nu range when the rounded input sits on the clamped side of it)
  double kappa = 0; bool singular = false;
  for (int j = 0; j < 2; j++) {
    const int idx = kPairIdx[pair][j]; const LD u = ulp_at(nt, mod[idx]);
    double kj = 0;
    for (int d : {1, -1, 4, -4}) {
      LD mp[7]; for (int i = 0; i < 7; i++) mp[i] = mod[i];
      mp[idx] += d * u;
      const M a = build_pair<T>(pair, mp);
      const LD d1 = a.ShearModulus().Value() - mu1, d2 = a.LameFirstModulus().Value() - lam1;
      if (!std::isfinite(d1) || !std::isfinite(d2)) { singular = true; continue; }
      kj = std::max(kj, (double)(std::max(std::fabs(d1), std::fabs(d2)) / (std::abs(d) * ulp_at(nt, scale))));
    }
    kappa += kj;
  }
  if (singular) { V.cls += ";singular-within-one-ulp"; return V; }
  const double tol = 8.0 * (1.0 + kappa);
  const double e1 = (double)(std::fabs(mu1 - (LD)qm) / ulp_at(nt, scale)), e2 = (double)(std::fabs(lam1 - (LD)ql) / ulp_at(nt, scale));
  if (!(e1 <= tol) || !(e2 <= tol))
    return Verdict::fail(fmt("ElasticIsotropicSolid<%s> rebuilt from its own %s: G = %s (was %s, %.3g ulp of the stiffness scale), lambda = %s (was %s, %.3g ulp); allowed 8(1+kappa) = %.3g with measured kappa = %.3g; nu = %s", ntinfo(nt).name,
                             kPairName[pair], decld(mu1).c_str(), decld((LD)qm).c_str(), e1, decld(lam1).c_str(), decld((LD)ql).c_str(), e2, tol, kappa, decld(nu).c_str()));
  V.cls += kappa <= 16 ? ";well-conditioned" : ";ill-conditioned";
  V.nontrivial = kappa <= 16;
  V.show = fmt("ElasticIsotropicSolid<%s> G=%s lambda=%s nu=%s rebuilt from %s: %.2f / %.2f ulp, kappa %.2f", ntinfo(nt).name, decld(mu).c_str(), decld(lam).c_str(), decld(nu).c_str(), kPairName[pair], e1, e2, kappa);
  return V;
}
static Verdict c12_moduli(const Case& c) {
  const int nt = (int)c.i[0], pair = (int)c.i[1];
  return nt == 0 ? c12_moduli_t<float>(nt, c.r[0], c.r[1], pair) : nt == 1 ? c12_moduli_t<double>(nt, c.r[0], c.r[1], pair) : c12_moduli_t<long double>(nt, c.r[0], c.r[1], pair);
}
// (mu, nu-class) -> (mu, lambda) exactly representable in nt
static rc::Gen<std::vector<LD>> gen_material(int nt) {
  const int w = nt == 0 ? 30 : 40;
  return rc::gen::map(rc::gen::tuple(gen_real(nt, -w, w, 0), irange(0, 99), gen_real(nt, -1, -1, 0), irange(1, 12)), [=](const std::tuple<LD, int, LD, int>& t) {
    const LD mu = std::get<0>(t); const int cls = std::get<1>(t); LD nu;
    if (cls < 5) nu = 0; else if (cls < 75) nu = (std::get<2>(t) - 0.5L) * 0.98L; else nu = 0.5L - std::ldexp((LD)1, -std::get<3>(t) - 1);   // 0, uniform in [0, 0.49), 0.5 - 2^-k
    const LD lam = round_to(nt, 2 * mu * nu / (1 - 2 * nu));
    return std::vector<LD>{mu, lam};
  });
}

// ---- stress / strain, three overloads, virtual and direct ------------------------------------------------------
template <class TM, class TA> static Verdict c12_stress_t(int ntm, int nta, LD mu, LD lam, const LD* eps, const LD* rate) {
  using M = ConstitutiveModel::ElasticIsotropicSolid<TM>;
  const M m{PhQ::ShearModulus<TM>((TM)mu, Pa), PhQ::LameFirstModulus<TM>((TM)lam, Pa)};
  const ConstitutiveModel& base = m;
  const PhQ::Strain<TA> strain(sd<TA>(eps));
  const PhQ::StrainRate<TA> srate(sd<TA>(rate), Hz);
  LD e[6], s1[6], s2[6], s3[6], s4[6];
  fl6(strain.Value(), e);
  fl6(m.Stress(strain).Value(), s1); fl6(base.Stress(strain).Value(), s2); fl6(m.Stress(strain, srate).Value(), s3); fl6(base.Stress(strain, srate).Value(), s4);
  const std::string who = fmt("ElasticIsotropicSolid<%s>(G=%s, lambda=%s)", ntinfo(ntm).name, decld(mu).c_str(), decld(lam).c_str());
  for (int i = 0; i < 6; i++) {
    if (!same_bits(nta, s1[i], s2[i])) return Verdict::fail(fmt("%s: Stress(Strain<%s>) through the abstract interface differs from the direct call in component %d", who.c_str(), ntinfo(nta).name, i));
    if (!same_bits(nta, s1[i], s3[i]) || !same_bits(nta, s1[i], s4[i])) return Verdict::fail(fmt("%s: Stress(Strain<%s>, StrainRate) depends on the strain rate in component %d: %s vs %s", who.c_str(), ntinfo(nta).name, i, hexld(s3[i]).c_str(), hexld(s1[i]).c_str()));
  }
  // sigma = 2 mu eps + lambda tr(eps) I, with the moduli as the model stores them
  const Q qm = (Q)(LD)(TM)mu, ql = (Q)(LD)(TM)lam;
  const Q tr = (Q)e[0] + (Q)e[3] + (Q)e[5], trabs = fabsq((Q)e[0]) + fabsq((Q)e[3]) + fabsq((Q)e[5]);
  for (int i = 0; i < 6; i++) {
    const Q ref = 2 * qm * (Q)e[i] + (kDiag[i] ? ql * tr : (Q)0), mag = fabsq(2 * qm * (Q)e[i]) + (kDiag[i] ? fabsq(ql) * trabs : (Q)0);
    if (mag == 0) { if (s1[i] != 0) return Verdict::fail(fmt("%s: Stress component %d should vanish", who.c_str(), i)); continue; }
    const double er = err_ulps(nta, s1[i], ref, mag);
    if (!(er <= 6.0)) return Verdict::fail(fmt("%s.Stress(Strain<%s>%s) component %d = %s, 2 G eps + lambda tr(eps) I = %s (%.3g ulp of the sum of |terms|, allowed 6)", who.c_str(), ntinfo(nta).name, cs(e, 6).c_str(), i, decld(s1[i]).c_str(), qstr(ref).c_str(), er));
  }
  // zero results from rates alone / for strain rates
  { LD z[6]; fl6(m.Stress(srate).Value(), z); for (int i = 0; i < 6; i++) if (z[i] != 0) return Verdict::fail(fmt("%s.Stress(StrainRate<%s>) is not zero", who.c_str(), ntinfo(nta).name));
    fl6(base.Stress(srate).Value(), z); for (int i = 0; i < 6; i++) if (z[i] != 0) return Verdict::fail(fmt("%s.Stress(StrainRate<%s>) through the interface is not zero", who.c_str(), ntinfo(nta).name));
    const PhQ::Stress<TA> sg(sd<TA>(s1), Pa); fl6(m.StrainRate(sg).Value(), z); for (int i = 0; i < 6; i++) if (z[i] != 0) return Verdict::fail(fmt("%s.StrainRate(Stress<%s>) is not zero", who.c_str(), ntinfo(nta).name)); }
  // strain inverts stress, within the measured conditioning
  const PhQ::Stress<TA> sg(sd<TA>(s1), Pa);
  LD back[6], backv[6]; fl6(m.Strain(sg).Value(), back); fl6(base.Strain(sg).Value(), backv);
  for (int i = 0; i < 6; i++) if (!same_bits(nta, back[i], backv[i])) return Verdict::fail(fmt("%s: Strain(Stress<%s>) through the abstract interface differs from the direct call", who.c_str(), ntinfo(nta).name));
  LD emax = 0; for (int i = 0; i < 6; i++) emax = std::max(emax, std::fabs(e[i]));
  Verdict V; V.cls = std::string(ntinfo(ntm).name) + "/" + ntinfo(nta).name;
  if (emax == 0) return V;
  double kappa = 0; bool singular = false;
  for (int j = 0; j < 6; j++) {
    LD sp[6], sm[6]; for (int i = 0; i < 6; i++) sp[i] = sm[i] = s1[i];
    // the stress component carries up to 6 ulp of the sum of its |terms|: perturb by one ulp of that magnitude
    const Q magj = fabsq(2 * qm * (Q)e[j]) + (kDiag[j] ? fabsq(ql) * trabs : (Q)0);
    const LD u = ulp_at(nta, magj == 0 ? std::ldexp(emax, -20) * (LD)qm : (LD)magj); sp[j] += u; sm[j] -= u;
    LD bp[6], bm[6]; fl6(m.Strain(PhQ::Stress<TA>(sd<TA>(sp), Pa)).Value(), bp); fl6(m.Strain(PhQ::Stress<TA>(sd<TA>(sm), Pa)).Value(), bm);
    double k = 0; for (int i = 0; i < 6; i++) { if (!std::isfinite(bp[i]) || !std::isfinite(bm[i])) { singular = true; continue; } k = std::max(k, (double)(std::fabs(bp[i] - bm[i]) / (2 * ulp_at(nta, emax)))); }
    kappa += k;
  }
  if (singular) { V.cls += ";singular"; return V; }
  // the model's moduli enter both maps after a cast to the argument type: a relative perturbation of half an ulp of TA in lambda is amplified like the volumetric part
  const double cast_amp = (double)(fabsq(ql) / (fabsq(qm) + 1e-4900L)) ;
  const double tol = 8.0 * (1.0 + kappa) * (1.0 + (ntinfo(nta).mant < ntinfo(ntm).mant ? cast_amp : 0.0));
  for (int i = 0; i < 6; i++) {
    const double er = (double)(std::fabs(back[i] - e[i]) / ulp_at(nta, emax));
    if (!(er <= tol)) return Verdict::fail(fmt("%s: Strain(Stress(eps)) component %d = %s, eps = %s (%.3g ulp of max|eps|; allowed 8(1+kappa) = %.3g, measured kappa = %.3g); eps = %s [%s]", who.c_str(), i, decld(back[i]).c_str(), decld(e[i]).c_str(), er, tol, kappa, cs(e, 6).c_str(), ntinfo(nta).name));
  }
  V.cls += kappa <= 64 ? ";well-conditioned" : ";ill-conditioned"; V.nontrivial = kappa <= 64;
  return V;
}
static Verdict c12_stress(const Case& c) {
  const int ntm = (int)c.i[0], nta = (int)c.i[1]; const LD mu = c.r[0], lam = c.r[1]; const LD* eps = &c.r[2]; const LD* rate = &c.r[8];
#define VF_D(A, B, TA_, TB_) if (ntm == A && nta == B) return c12_stress_t<TA_, TB_>(ntm, nta, mu, lam, eps, rate);
  VF_D(0, 0, float, float) VF_D(0, 1, float, double) VF_D(0, 2, float, long double) VF_D(1, 0, double, float) VF_D(1, 1, double, double) VF_D(1, 2, double, long double)
  VF_D(2, 0, long double, float) VF_D(2, 1, long double, double) VF_D(2, 2, long double, long double)
#undef VF_D
  return Verdict::skip("bad-instance");
}
template <class T> static Verdict c12_misc_t(int nt, LD mu, LD lam) {
  using M = ConstitutiveModel::ElasticIsotropicSolid<T>;
  const M m{PhQ::ShearModulus<T>((T)mu, Pa), PhQ::LameFirstModulus<T>((T)lam, Pa)};
  const ConstitutiveModel& base = m;
  if (base.GetType() != ConstitutiveModel::Type::ElasticIsotropicSolid) return Verdict::fail("ElasticIsotropicSolid::GetType() is wrong");
  const std::string p = base.Print(), a = m.ShearModulus().Print(), b = m.LameFirstModulus().Print();
  if (p.find(a) == std::string::npos || p.find(b) == std::string::npos) return Verdict::fail(fmt("ElasticIsotropicSolid<%s>::Print() = \"%s\" does not contain both stored moduli \"%s\" and \"%s\"", ntinfo(nt).name, p.c_str(), a.c_str(), b.c_str()));
  for (const std::string& s : {base.JSON(), base.XML(), base.YAML()}) if (s.find(m.ShearModulus().Value() == 0 ? "0" : PhQ::Print((T)mu)) == std::string::npos) return Verdict::fail(fmt("a serialisation of ElasticIsotropicSolid<%s> lacks the shear modulus: %s", ntinfo(nt).name, s.c_str()));
  std::ostringstream os; os << base; if (os.str() != p) return Verdict::fail("streaming an ElasticIsotropicSolid differs from Print()");
  Verdict V; V.nontrivial = true; V.cls = ntinfo(nt).name; return V;
}

// ================================================================================================ fluids
template <class TM, class TA> static Verdict c13_t(int ntm, int nta, int cls, LD mu, LD mub, const LD* d1, const LD* d2, LD alpha, LD beta, const LD* eps) {
  using MC = ConstitutiveModel::CompressibleNewtonianFluid<TM>; using MI = ConstitutiveModel::IncompressibleNewtonianFluid<TM>;
  const PhQ::DynamicViscosity<TM> MU((TM)mu, PaS); const PhQ::BulkDynamicViscosity<TM> MUB((TM)mub, PaS);
  const MC mc = cls == 1 ? MC(MU) : MC(MU, MUB); const MI mi(MU);
  const ConstitutiveModel& base = cls == 0 ? static_cast<const ConstitutiveModel&>(mi) : static_cast<const ConstitutiveModel&>(mc);
  const char* name = cls == 0 ? "IncompressibleNewtonianFluid" : "CompressibleNewtonianFluid";
  const std::string who = fmt("%s<%s>(mu=%s%s)", name, ntinfo(ntm).name, decld(mu).c_str(), cls == 2 ? fmt(", mu_b=%s", decld(mub).c_str()).c_str() : "");
  if (base.GetType() != (cls == 0 ? ConstitutiveModel::Type::IncompressibleNewtonianFluid : ConstitutiveModel::Type::CompressibleNewtonianFluid)) return Verdict::fail(who + ": GetType() is wrong");
  if (cls == 1) { const LD b = mc.BulkDynamicViscosity().Value(); if (b != 0 || std::signbit(b)) return Verdict::fail(fmt("%s built from a dynamic viscosity alone has bulk viscosity %s, expected +0", who.c_str(), hexld(b).c_str())); }
  const Q qm = (Q)(LD)(TM)mu, qb = cls == 2 ? (Q)(LD)(TM)mub : (Q)0;
  const PhQ::StrainRate<TA> D1(sd<TA>(d1), Hz), D2(sd<TA>(d2), Hz); const PhQ::Strain<TA> E(sd<TA>(eps));
  auto stress_direct = [&](const PhQ::StrainRate<TA>& D, LD* o) { if (cls == 0) fl6(mi.Stress(D).Value(), o); else fl6(mc.Stress(D).Value(), o); };
  LD e1[6], s1[6], sv[6], s2[6];
  fl6(D1.Value(), e1); stress_direct(D1, s1); fl6(base.Stress(D1).Value(), sv); fl6(base.Stress(E, D1).Value(), s2);
  for (int i = 0; i < 6; i++) {
    if (!same_bits(nta, s1[i], sv[i])) return Verdict::fail(fmt("%s: Stress(StrainRate<%s>) through the abstract interface differs from the direct call", who.c_str(), ntinfo(nta).name));
    if (!same_bits(nta, s1[i], s2[i])) return Verdict::fail(fmt("%s: Stress(Strain, StrainRate<%s>) depends on the strain (component %d: %s vs %s)", who.c_str(), ntinfo(nta).name, i, hexld(s2[i]).c_str(), hexld(s1[i]).c_str()));
  }
  const Q tr = (Q)e1[0] + (Q)e1[3] + (Q)e1[5], trabs = fabsq((Q)e1[0]) + fabsq((Q)e1[3]) + fabsq((Q)e1[5]);
  for (int i = 0; i < 6; i++) {
    const Q ref = 2 * qm * (Q)e1[i] + (kDiag[i] ? qb * tr : (Q)0), mag = fabsq(2 * qm * (Q)e1[i]) + (kDiag[i] ? fabsq(qb) * trabs : (Q)0);
    if (mag == 0) { if (s1[i] != 0) return Verdict::fail(who + ": a stress component should vanish"); continue; }
    const double er = err_ulps(nta, s1[i], ref, mag);
    if (!(er <= 6.0)) return Verdict::fail(fmt("%s.Stress(StrainRate<%s>%s) component %d = %s, 2 mu D%s = %s (%.3g ulp of the sum of |terms|, allowed 6)", who.c_str(), ntinfo(nta).name, cs(e1, 6).c_str(), i, decld(s1[i]).c_str(), cls == 0 ? "" : " + mu_b tr(D) I", qstr(ref).c_str(), er));
  }
  // strain arguments are ignored: zero stress from strain alone, zero strain from stress
  { LD z[6]; fl6(base.Stress(E).Value(), z); for (int i = 0; i < 6; i++) if (z[i] != 0) return Verdict::fail(fmt("%s.Stress(Strain<%s>) is not zero", who.c_str(), ntinfo(nta).name));
    fl6(base.Strain(PhQ::Stress<TA>(sd<TA>(s1), Pa)).Value(), z); for (int i = 0; i < 6; i++) if (z[i] != 0) return Verdict::fail(fmt("%s.Strain(Stress<%s>) is not zero", who.c_str(), ntinfo(nta).name)); }
  // inverse
  LD back[6], backd[6]; const PhQ::Stress<TA> SG(sd<TA>(s1), Pa);
  fl6(base.StrainRate(SG).Value(), back); if (cls == 0) fl6(mi.StrainRate(SG).Value(), backd); else fl6(mc.StrainRate(SG).Value(), backd);
  for (int i = 0; i < 6; i++) if (!same_bits(nta, back[i], backd[i])) return Verdict::fail(who + ": StrainRate(Stress) through the abstract interface differs from the direct call");
  LD emax = 0; for (int i = 0; i < 6; i++) emax = std::max(emax, std::fabs(e1[i]));
  Verdict V; V.cls = std::string(ntinfo(ntm).name) + "/" + ntinfo(nta).name + ";" + name + (cls == 1 ? "(mu)" : "");
  if (emax == 0) return V;
  double kappa = 0; bool singular = false;
  for (int j = 0; j < 6; j++) {
    LD sp[6], sm[6]; for (int i = 0; i < 6; i++) sp[i] = sm[i] = s1[i];
    const Q magj = fabsq(2 * qm * (Q)e1[j]) + (kDiag[j] ? fabsq(qb) * trabs : (Q)0);
    const LD u = ulp_at(nta, magj == 0 ? std::ldexp(emax, -20) * (LD)qm : (LD)magj); sp[j] += u; sm[j] -= u;
    LD bp[6], bm[6]; fl6(base.StrainRate(PhQ::Stress<TA>(sd<TA>(sp), Pa)).Value(), bp); fl6(base.StrainRate(PhQ::Stress<TA>(sd<TA>(sm), Pa)).Value(), bm);
    double k = 0; for (int i = 0; i < 6; i++) { if (!std::isfinite(bp[i]) || !std::isfinite(bm[i])) { singular = true; continue; } k = std::max(k, (double)(std::fabs(bp[i] - bm[i]) / (2 * ulp_at(nta, emax)))); }
    kappa += k;
  }
  if (singular) { V.cls += ";singular"; return V; }
  const double cast_amp = (double)(fabsq(qb) / qm);
  const double tol = 8.0 * (1.0 + kappa) * (1.0 + (ntinfo(nta).mant < ntinfo(ntm).mant ? cast_amp : 0.0));
  for (int i = 0; i < 6; i++) { const double er = (double)(std::fabs(back[i] - e1[i]) / ulp_at(nta, emax)); if (!(er <= tol)) return Verdict::fail(fmt("%s: StrainRate(Stress(D)) component %d = %s, D = %s (%.3g ulp of max|D|; allowed 8(1+kappa) = %.3g, kappa = %.3g) [%s]", who.c_str(), i, decld(back[i]).c_str(), decld(e1[i]).c_str(), er, tol, kappa, ntinfo(nta).name)); }
  // linearity: Stress(alpha D1 + beta D2) = alpha Stress(D1) + beta Stress(D2)
  {
    LD e2[6], comb[6], sc[6], sB[6]; fl6(D2.Value(), e2);
    for (int i = 0; i < 6; i++) comb[i] = round_to(nta, round_to(nta, alpha * e1[i]) + round_to(nta, beta * e2[i]));
    const PhQ::StrainRate<TA> DC(sd<TA>(comb), Hz); fl6(base.Stress(DC).Value(), sc); stress_direct(D2, sB);
    const Q trc = (Q)comb[0] + (Q)comb[3] + (Q)comb[5]; (void)trc;
    for (int i = 0; i < 6; i++) {
      const Q want = (Q)alpha * (Q)s1[i] + (Q)beta * (Q)sB[i];
      const Q mag = fabsq((Q)alpha) * (fabsq(2 * qm * (Q)e1[i]) + (kDiag[i] ? fabsq(qb) * trabs : (Q)0)) + fabsq((Q)beta) * (fabsq(2 * qm * (Q)e2[i]) + (kDiag[i] ? fabsq(qb) * (fabsq((Q)e2[0]) + fabsq((Q)e2[3]) + fabsq((Q)e2[5])) : (Q)0));
      if (mag == 0) continue;
      const double er = err_ulps(nta, sc[i], want, mag);
      if (!(er <= 16.0)) return Verdict::fail(fmt("%s: Stress is not linear: Stress(%s D1 + %s D2) component %d = %s, %s Stress(D1) + %s Stress(D2) = %s (%.3g ulp of the sum of |terms|, allowed 16) [%s]", who.c_str(), decld(alpha).c_str(),
                                                   decld(beta).c_str(), i, decld(sc[i]).c_str(), decld(alpha).c_str(), decld(beta).c_str(), qstr(want).c_str(), er, ntinfo(nta).name));
    }
  }
  // printing carries the viscosities
  { const std::string p = base.Print(); const std::string a = MU.Print(); if (p.find(a) == std::string::npos) return Verdict::fail(fmt("%s::Print() = \"%s\" lacks the dynamic viscosity \"%s\"", who.c_str(), p.c_str(), a.c_str())); }
  V.cls += kappa <= 64 ? ";well-conditioned" : ";ill-conditioned"; V.nontrivial = kappa <= 64;
  return V;
}
static Verdict c13(const Case& c) {
  const int ntm = (int)c.i[0], nta = (int)c.i[1], cls = (int)c.i[2];
  const LD mu = c.r[0], mub = c.r[1], alpha = c.r[2], beta = c.r[3]; const LD* d1 = &c.r[4]; const LD* d2 = &c.r[10]; const LD* eps = &c.r[16];
#define VF_D(A, B, TA_, TB_) if (ntm == A && nta == B) return c13_t<TA_, TB_>(ntm, nta, cls, mu, mub, d1, d2, alpha, beta, eps);
  VF_D(0, 0, float, float) VF_D(0, 1, float, double) VF_D(0, 2, float, long double) VF_D(1, 0, double, float) VF_D(1, 1, double, double) VF_D(1, 2, double, long double)
  VF_D(2, 0, long double, float) VF_D(2, 1, long double, double) VF_D(2, 2, long double, long double)
#undef VF_D
  return Verdict::skip("bad-instance");
}

// ================================================================================================ C14 for the model classes
template <class M> static int mask_of(const M& x, const M& y) { return (x == y ? 1 : 0) | (x != y ? 2 : 0) | (x < y ? 4 : 0) | (x > y ? 8 : 0) | (x <= y ? 16 : 0) | (x >= y ? 32 : 0); }
template <class T> static Verdict c14_model_t(int nt, int cls, const LD* a, const LD* b) {
  int mask, cont; size_t ha, hb;
  auto go = [&](const auto& x, const auto& y) {
    using M = std::decay_t<decltype(x)>;
    mask = mask_of(x, y); ha = std::hash<M>()(x); hb = std::hash<M>()(y);
    std::set<M> s; s.insert(x); s.insert(y); std::unordered_set<M> u; u.insert(x); u.insert(y);
    cont = (int)s.size() * 10 + (int)u.size() + ((s.count(x) && s.count(y) && u.count(x) && u.count(y)) ? 100 : 0);
  };
  const int n = cls == 1 ? 1 : 2;
  if (cls == 0) go(ConstitutiveModel::ElasticIsotropicSolid<T>(PhQ::ShearModulus<T>((T)a[0], Pa), PhQ::LameFirstModulus<T>((T)a[1], Pa)), ConstitutiveModel::ElasticIsotropicSolid<T>(PhQ::ShearModulus<T>((T)b[0], Pa), PhQ::LameFirstModulus<T>((T)b[1], Pa)));
  else if (cls == 1) go(ConstitutiveModel::IncompressibleNewtonianFluid<T>(PhQ::DynamicViscosity<T>((T)a[0], PaS)), ConstitutiveModel::IncompressibleNewtonianFluid<T>(PhQ::DynamicViscosity<T>((T)b[0], PaS)));
  else go(ConstitutiveModel::CompressibleNewtonianFluid<T>(PhQ::DynamicViscosity<T>((T)a[0], PaS), PhQ::BulkDynamicViscosity<T>((T)a[1], PaS)), ConstitutiveModel::CompressibleNewtonianFluid<T>(PhQ::DynamicViscosity<T>((T)b[0], PaS), PhQ::BulkDynamicViscosity<T>((T)b[1], PaS)));
  int cmp = 0; for (int i = 0; i < n && !cmp; i++) cmp = a[i] < b[i] ? -1 : a[i] > b[i] ? 1 : 0;
  const int want = (cmp == 0 ? 1 : 0) | (cmp != 0 ? 2 : 0) | (cmp < 0 ? 4 : 0) | (cmp > 0 ? 8 : 0) | (cmp <= 0 ? 16 : 0) | (cmp >= 0 ? 32 : 0);
  static const char* tn[] = {"ElasticIsotropicSolid", "IncompressibleNewtonianFluid", "CompressibleNewtonianFluid"};
  if (mask != want) return Verdict::fail(fmt("%s<%s>: comparison mask (==,!=,<,>,<=,>=) of %s and %s is %d, lexicographic comparison of the stored moduli gives %d", tn[cls], ntinfo(nt).name, cs(a, n).c_str(), cs(b, n).c_str(), mask, want));
  if (cmp == 0 && ha != hb) return Verdict::fail(fmt("%s<%s>: equal models %s and %s hash differently", tn[cls], ntinfo(nt).name, cs(a, n).c_str(), cs(b, n).c_str()));
  const int distinct = cmp == 0 ? 1 : 2;
  if (cont != 100 + distinct * 11) return Verdict::fail(fmt("%s<%s>: {%s, %s} in std::set / std::unordered_set: code %d, expected %d", tn[cls], ntinfo(nt).name, cs(a, n).c_str(), cs(b, n).c_str(), cont, 100 + distinct * 11));
  Verdict V; V.cls = std::string(ntinfo(nt).name) + ";" + tn[cls]; V.nontrivial = n == 1 || a[0] == b[0]; return V;
}
static Verdict c14_model(const Case& c) {
  const int nt = (int)c.i[0], cls = (int)c.i[1]; LD a[2] = {round_to(nt, c.r[0]), round_to(nt, c.r[1])}, b[2] = {round_to(nt, c.r[2]), round_to(nt, c.r[3])};
  return nt == 0 ? c14_model_t<float>(nt, cls, a, b) : nt == 1 ? c14_model_t<double>(nt, cls, a, b) : c14_model_t<long double>(nt, cls, a, b);
}

// ================================================================================================ histories of one model object (C12, C13)
// A constitutive model is a value: what it answers depends only on the material it currently holds, not on what the object was asked or assigned before.
// Operations on one object: forward query (stress), inverse query (strain / strain rate), copy-assignment and move-assignment of another material,
// continuing with a copy-constructed / move-constructed object, queries through const ConstitutiveModel&.  Oracle: after every step each query returns,
// bit for bit, what a freshly constructed model of the current material returns, the accessors agree, and the object compares equal to the fresh one.
template <int CLS, class T> struct ModelOf;
template <class T> struct ModelOf<0, T> { using M = ConstitutiveModel::ElasticIsotropicSolid<T>; static M make(LD a, LD b) { return M(PhQ::ShearModulus<T>((T)a, Pa), PhQ::LameFirstModulus<T>((T)b, Pa)); }
  static void acc(const M& m, LD* o) { o[0] = m.ShearModulus().Value(); o[1] = m.LameFirstModulus().Value(); } static constexpr const char* name = "ElasticIsotropicSolid"; };
template <class T> struct ModelOf<1, T> { using M = ConstitutiveModel::IncompressibleNewtonianFluid<T>; static M make(LD a, LD) { return M(PhQ::DynamicViscosity<T>((T)a, PaS)); }
  static void acc(const M& m, LD* o) { o[0] = m.DynamicViscosity().Value(); o[1] = 0; } static constexpr const char* name = "IncompressibleNewtonianFluid"; };
template <class T> struct ModelOf<2, T> { using M = ConstitutiveModel::CompressibleNewtonianFluid<T>; static M make(LD a, LD b) { return M(PhQ::DynamicViscosity<T>((T)a, PaS), PhQ::BulkDynamicViscosity<T>((T)b, PaS)); }
  static void acc(const M& m, LD* o) { o[0] = m.DynamicViscosity().Value(); o[1] = m.BulkDynamicViscosity().Value(); } static constexpr const char* name = "CompressibleNewtonianFluid"; };
template <int CLS, class TA, class MB> static void model_forward(const MB& m, const LD* t, LD* o) {
  if constexpr (CLS == 0) fl6(m.Stress(PhQ::Strain<TA>(sd<TA>(t))).Value(), o); else fl6(m.Stress(PhQ::StrainRate<TA>(sd<TA>(t), Hz)).Value(), o);
}
template <int CLS, class TA, class MB> static void model_inverse(const MB& m, const LD* t, LD* o) {
  if constexpr (CLS == 0) fl6(m.Strain(PhQ::Stress<TA>(sd<TA>(t), Pa)).Value(), o); else fl6(m.StrainRate(PhQ::Stress<TA>(sd<TA>(t), Pa)).Value(), o);
}
// one query in the argument type `ta` (0 float, 1 double, 2 long double); results are returned as long double
template <int CLS, class MB> static void model_query(const MB& m, int ta, bool inverse, const LD* t, LD* o) {
  if (!inverse) { if (ta == 0) model_forward<CLS, float>(m, t, o); else if (ta == 1) model_forward<CLS, double>(m, t, o); else model_forward<CLS, long double>(m, t, o); }
  else { if (ta == 0) model_inverse<CLS, float>(m, t, o); else if (ta == 1) model_inverse<CLS, double>(m, t, o); else model_inverse<CLS, long double>(m, t, o); }
}
template <int CLS, class T> static Verdict model_history_t(int ntm, int nta0, const Case& c) {
  using MO = ModelOf<CLS, T>; using M = typename MO::M;
  const LD* mat = &c.r[0]; const LD* t1 = &c.r[6]; const LD* t2 = &c.r[12];
  int cur = 0; auto obj = std::make_unique<M>(MO::make(mat[0], mat[1]));
  std::string trace = fmt("%s<%s> m(%s, %s)", MO::name, ntinfo(ntm).name, decld(mat[0]).c_str(), decld(mat[1]).c_str());
  bool queried = false, reassigned_after_query = false, queried_after = false; int types_used = 0;
  auto check = [&](const char* what, int nta, const LD* got, const LD* want, int n) -> std::string {
    for (int i = 0; i < n; i++) if (!same_bits(nta, got[i], want[i]) && !(got[i] != got[i] && want[i] != want[i]))
      return fmt("after [%s] %s component %d is %s, a freshly constructed model of the current material (%s, %s) gives %s [argument type %s]", trace.c_str(), what, i, hexld(got[i]).c_str(), decld(mat[2 * cur]).c_str(), decld(mat[2 * cur + 1]).c_str(), hexld(want[i]).c_str(), ntinfo(nta).name);
    return "";
  };
  const size_t nops = c.i.size() - 3;
  for (size_t j = 0; j <= nops; j++) {
    const long long code = j < nops ? c.i[3 + j] : 0;
    const int op = (int)(code % 8), k = (int)((code / 8) % 3);
    // the argument type of a query: the instance's type for two thirds of the steps, any of the three otherwise (overloads of different numeric types on ONE object)
    const int nta = ((code / 24) % 3 == 0) ? (int)((code / 72) % 3) : nta0;
    const bool final_probe = j == nops;
    const M fresh = MO::make(mat[2 * cur], mat[2 * cur + 1]);
    LD got[6], want[6]; std::string m;
    for (int inverse = 0; inverse < 2; inverse++) {
      const bool direct = inverse ? op == 1 : op == 0, iface = inverse ? op == 6 : op == 5;
      if (!(final_probe || direct || iface)) continue;
      // the final probe asks in all three argument types
      for (int ta = final_probe ? 0 : nta; ta <= (final_probe ? 2 : nta); ta++) {
        LD ta_t[6]; for (int i = 0; i < 6; i++) ta_t[i] = round_to(ta, (inverse ? t2 : t1)[i]);
        const ConstitutiveModel& base = *obj; const ConstitutiveModel& fbase = fresh;
        if (iface && !final_probe) { model_query<CLS>(base, ta, inverse, ta_t, got); model_query<CLS>(fbase, ta, inverse, ta_t, want); }
        else { model_query<CLS>(*obj, ta, inverse, ta_t, got); model_query<CLS>(fresh, ta, inverse, ta_t, want); }
        trace += fmt("; %s query<%s>%s", inverse ? "inverse" : "forward", ntinfo(ta).name, iface && !final_probe ? " through the interface" : "");
        m = check(inverse ? "the inverse map" : "the forward map", ta, got, want, 6); if (!m.empty()) return Verdict::fail(m);
        types_used |= 1 << ta;
      }
      if (reassigned_after_query) queried_after = true; queried = true;
    }
    if (final_probe) {
      LD a[2], f[2]; MO::acc(*obj, a); MO::acc(fresh, f);
      for (int i = 0; i < 2; i++) if (!same_bits(ntm, a[i], f[i])) return Verdict::fail(fmt("after [%s] accessor %d reports %s, the current material has %s", trace.c_str(), i, hexld(a[i]).c_str(), hexld(f[i]).c_str()));
      if (!(*obj == fresh) || *obj != fresh || *obj < fresh || fresh < *obj) return Verdict::fail(fmt("after [%s] the object does not compare equal to a freshly constructed model of the same material", trace.c_str()));
      if (std::hash<M>()(*obj) != std::hash<M>()(fresh)) return Verdict::fail(fmt("after [%s] the object hashes differently from a freshly constructed model of the same material", trace.c_str()));
      break;
    }
    switch (op) {
      case 2: { const M other = MO::make(mat[2 * k], mat[2 * k + 1]); *obj = other; trace += fmt("; copy-assign (%s, %s)", decld(mat[2 * k]).c_str(), decld(mat[2 * k + 1]).c_str()); if (queried && k != cur) reassigned_after_query = true; cur = k; break; }
      case 3: { *obj = MO::make(mat[2 * k], mat[2 * k + 1]); trace += fmt("; move-assign (%s, %s)", decld(mat[2 * k]).c_str(), decld(mat[2 * k + 1]).c_str()); if (queried && k != cur) reassigned_after_query = true; cur = k; break; }
      case 4: { auto copy = std::make_unique<M>(*obj); obj = std::move(copy); trace += "; continue with a copy-constructed object"; break; }
      case 7: { auto moved = std::make_unique<M>(std::move(*obj)); obj = std::move(moved); trace += "; continue with a move-constructed object"; break; }
      default: break;
    }
  }
  const int ntypes = (types_used & 1) + ((types_used >> 1) & 1) + ((types_used >> 2) & 1);
  Verdict V; V.cls = std::string(MO::name) + "<" + ntinfo(ntm).name + ">/arg<" + ntinfo(nta0).name + ">" + (queried_after ? ";query-after-reassignment-after-query" : ";no-such-pattern");
  V.nontrivial = queried_after; V.sub_evals = (long)nops + 1; V.sub_nontrivial = queried_after ? (long)nops + 1 : 0;
  (void)ntypes;
  return V;
}
template <int CLS> static Verdict model_history(const Case& c) {
  const int ntm = (int)c.i[0], nta = (int)c.i[1];
  return ntm == 0 ? model_history_t<CLS, float>(ntm, nta, c) : ntm == 1 ? model_history_t<CLS, double>(ntm, nta, c) : model_history_t<CLS, long double>(ntm, nta, c);
}
static Verdict model_history_any(const Case& c) { const int cls = (int)c.i[2]; return cls == 0 ? model_history<0>(c) : cls == 1 ? model_history<1>(c) : model_history<2>(c); }
// materials: three (a, b) pairs; solids: admissible (mu, lambda); fluids: positive viscosities
static rc::Gen<Case> gen_model_history(int ntm, int nta, int cls) {
  const int nmin = ntinfo(ntm).mant < ntinfo(nta).mant ? ntm : nta; const int w = nmin == 0 ? 10 : 20;
  auto mats = cls == 0 ? rc::gen::map(rc::gen::tuple(gen_material(ntm), gen_material(ntm), gen_material(ntm)), [](const std::tuple<std::vector<LD>, std::vector<LD>, std::vector<LD>>& t) {
                std::vector<LD> v = std::get<0>(t); v.insert(v.end(), std::get<1>(t).begin(), std::get<1>(t).end()); v.insert(v.end(), std::get<2>(t).begin(), std::get<2>(t).end()); return v; })
                       : gen_reals(6, ntm, -w, w, 0);
  return rc::gen::map(rc::gen::tuple(mats, gen_reals(12, nta, -w, w, kNeg), rc::gen::container<std::vector<int>>(10, irange(0, 215)), irange(2, 10)),
                      [=](const std::tuple<std::vector<LD>, std::vector<LD>, std::vector<int>, int>& t) {
                        Case c; c.i = {ntm, nta, cls}; c.r = std::get<0>(t); c.r.insert(c.r.end(), std::get<1>(t).begin(), std::get<1>(t).end());
                        for (int j = 0; j < std::get<3>(t); j++) c.i.push_back(std::get<2>(t)[(size_t)j]);
                        return c; });
}

int main(int argc, char** argv) {
  std::vector<Sub> subs;
  {
    Sub s; s.name = "c12.moduli"; s.property = "C12"; s.instances = 3 * 20; s.n_quick = 3000; s.n_thorough = 60000; s.run = c12_moduli;
    s.gen = [](int inst) { const int pair = inst % 20, nt = inst / 20; return rc::gen::map(gen_material(nt), [=](const std::vector<LD>& v) { Case c; c.i = {nt, pair}; c.r = v; return c; }); };
    s.instance_name = [](int inst) { return std::string(kPairName[inst % 20]) + "/" + ntinfo(inst / 20).name; };
    s.rule = "20 constructors x 3 model numeric types; materials mu > 0 over +-40 binades, nu = 0 exactly (5%), uniform in [0, 0.49) (70%), 0.5 - 2^-k (25%), lambda = 2 mu nu/(1-2 nu); oracle: the seven reported moduli satisfy "
             "E = mu(3 lambda+2 mu)/(lambda+mu), K = lambda+2mu/3, M = lambda+2mu, nu = lambda/(2(lambda+mu)) within 4 ulp (__float128); the model rebuilt from each reported pair is finite and equals the original in (mu, lambda) "
             "within 8(1+kappa) ulp of the stiffness scale (kappa = measured amplification of one-ulp perturbations of the pair); (lambda, nu) at nu = 0 skipped (singular parametrisation); non-trivial: kappa <= 16";
    subs.push_back(s);
  }
  {
    Sub s; s.name = "c12.stress"; s.property = "C12"; s.instances = 9; s.n_quick = 15000; s.n_thorough = 300000; s.run = c12_stress;
    s.gen = [](int inst) { const int ntm = inst / 3, nta = inst % 3; const int nmin = ntinfo(ntm).mant < ntinfo(nta).mant ? ntm : nta; const int w = nmin == 0 ? 12 : 20;
      return rc::gen::map(rc::gen::tuple(gen_material(ntm), gen_reals(12, nta, -w, w, kNeg | kZero)), [=](const std::tuple<std::vector<LD>, std::vector<LD>>& t) {
        Case c; c.i = {ntm, nta}; c.r = std::get<0>(t);
        c.r.insert(c.r.end(), std::get<1>(t).begin(), std::get<1>(t).end()); return c; }); };
    s.instance_name = [](int inst) { return std::string("model<") + ntinfo(inst / 3).name + ">/arg<" + ntinfo(inst % 3).name + ">"; };
    s.rule = "3 model numeric types x the 3 argument overloads of each virtual function, called directly and through const ConstitutiveModel&: Stress(eps) = 2 mu eps + lambda tr(eps) I within 6 ulp of the sum of |terms|; strain-rate "
             "arguments ignored bit for bit; Stress(rate) and StrainRate(sigma) exactly zero; Strain(Stress(eps)) = eps within 8(1+kappa) ulp (measured conditioning); virtual = direct bit for bit; non-trivial: kappa <= 64";
    subs.push_back(s);
  }
  {
    Sub s; s.name = "c12.misc"; s.property = "C12"; s.instances = 3; s.n_quick = 1000; s.n_thorough = 20000;
    s.gen = [](int inst) { return rc::gen::map(gen_material(inst), [=](const std::vector<LD>& v) { Case c; c.i = {inst}; c.r = v; return c; }); };
    s.run = [](const Case& c) { const int nt = (int)c.i[0]; return nt == 0 ? c12_misc_t<float>(nt, c.r[0], c.r[1]) : nt == 1 ? c12_misc_t<double>(nt, c.r[0], c.r[1]) : c12_misc_t<long double>(nt, c.r[0], c.r[1]); };
    s.rule = "GetType(), Print / JSON / XML / YAML carry both stored moduli, streaming through the abstract interface equals Print()";
    subs.push_back(s);
  }
  {
    Sub s; s.name = "c13.fluids"; s.property = "C13"; s.instances = 27; s.n_quick = 6000; s.n_thorough = 100000; s.run = c13;
    s.gen = [](int inst) { const int cls = inst % 3, nta = (inst / 3) % 3, ntm = inst / 9; const int nmin = ntinfo(ntm).mant < ntinfo(nta).mant ? ntm : nta; const int w = nmin == 0 ? 30 : 100, wt = nmin == 0 ? 10 : 20;
      return rc::gen::map(rc::gen::tuple(gen_reals(2, ntm, -w, w, 0), gen_reals(2, nta, -4, 4, kNeg), irange(0, 1), gen_reals(18, nta, -wt, wt, kNeg | kZero)), [=](const std::tuple<std::vector<LD>, std::vector<LD>, int, std::vector<LD>>& t) {
        Case c; c.i = {ntm, nta, cls}; c.r = std::get<0>(t); LD al = std::get<1>(t)[0], be = std::get<1>(t)[1]; if (std::get<2>(t)) { int e; std::frexp(al, &e); al = std::ldexp((LD)(al < 0 ? -1 : 1), e); std::frexp(be, &e); be = std::ldexp((LD)(be < 0 ? -1 : 1), e); }
        // bulk viscosity: two thirds of the cases within a few orders of magnitude of the shear viscosity, one third independent of it over the whole window
        // (a tiny but non-zero bulk viscosity is still a bulk viscosity)
        if (std::get<2>(t) || std::fabs(std::get<1>(t)[0]) > 1) c.r[1] = round_to(ntm, c.r[0] * std::ldexp((LD)1 + std::fabs(std::get<1>(t)[0]) / 32, (int)(std::fabs(std::get<1>(t)[1]) * 2) - 8));
        c.r.push_back(al); c.r.push_back(be); c.r.insert(c.r.end(), std::get<3>(t).begin(), std::get<3>(t).end()); return c; }); };
    s.instance_name = [](int inst) { static const char* cn[] = {"Incompressible", "Compressible(mu)", "Compressible(mu,mu_b)"}; return std::string(cn[inst % 3]) + "<" + ntinfo(inst / 9).name + ">/arg<" + ntinfo((inst / 3) % 3).name + ">"; };
    s.rule = "both fluid classes (compressible also from a viscosity alone => bulk viscosity +0) x 3 model numeric types x 3 argument overloads, direct and through the abstract interface; viscosities over +-40 binades; oracle: "
             "Stress(D) = 2 mu D (+ mu_b tr(D) I) within 6 ulp of the sum of |terms|, strain arguments ignored bit for bit, Stress(strain) and Strain(stress) exactly zero, StrainRate(Stress(D)) = D within 8(1+kappa) ulp, "
             "Stress(alpha D1 + beta D2) = alpha Stress(D1) + beta Stress(D2) within 16 ulp of the sum of |terms| (alpha, beta arbitrary or powers of two); non-trivial: kappa <= 64";
    subs.push_back(s);
  }
  {
    Sub s; s.name = "c14.models"; s.property = "C14"; s.instances = 9; s.n_quick = 5000; s.n_thorough = 100000; s.run = c14_model;
    s.gen = [](int inst) { const int cls = inst % 3, nt = inst / 3; const LD inf = std::numeric_limits<LD>::infinity();
      auto val = rc::gen::oneOf(rc::gen::element<LD>(-inf, -1, -(LD)0, (LD)0, 1, 2, inf, std::ldexp((LD)1, ntinfo(nt).emin)), gen_real(nt, -4, 4, kNeg | kZero));
      return rc::gen::map(rc::gen::tuple(rc::gen::container<std::vector<LD>>(4, val), irange(0, 4)), [=](const std::tuple<std::vector<LD>, int>& t) { Case c; c.i = {nt, cls}; c.r = std::get<0>(t);
        const int mode = std::get<1>(t);
        auto next = [nt](LD x) { return (x == 0 || !std::isfinite(x)) ? x : round_to(nt, x + ulp_at(nt, x)); };   // the neighbouring value of the numeric type
        if (mode == 1 || mode == 2) c.r[2] = c.r[0]; if (mode == 2) c.r[3] = c.r[1];
        if (mode == 3) c.r[2] = next(c.r[0]);                          // first moduli one ulp apart (they differ, however they are compared in a narrower type)
        if (mode == 4) { c.r[2] = c.r[0]; c.r[3] = next(c.r[1]); }     // tie in the first modulus, second moduli one ulp apart
        return c; }); };
    s.rule = "the three constitutive model classes x 3 numeric types: six comparison operators = lexicographic comparison of the stored moduli in declared order, equal => equal hash, std::set / std::unordered_set; moduli from a pool (infinities, signed zeros, smallest normal), random, tied, or one ulp of the numeric type apart; non-trivial: tie in the first modulus";
    subs.push_back(s);
  }
  {
    Sub s; s.name = "c12.history"; s.property = "C12"; s.instances = 9; s.n_quick = 4000; s.n_thorough = 100000; s.run = model_history_any;
    s.gen = [](int inst) { return gen_model_history(inst / 3, inst % 3, 0); };
    s.instance_name = [](int inst) { return std::string("model<") + ntinfo(inst / 3).name + ">/arg<" + ntinfo(inst % 3).name + ">"; };
    s.rule = "stateful: histories of 2..10 operations on ONE model object (stress query, strain query - in the instance's argument type or, for a third of the steps, in any of the three overloads -, the same through const ConstitutiveModel&, copy-assignment / move-assignment of one of three generated materials, continuing with a "
             "copy- / move-constructed object; a final probe in all three argument types); oracle after every query and at the end: bit-identical to a freshly constructed model of the current material, accessors, ==, <, hash agree; non-trivial: a query, then an assignment of a "
             "different material, then a query";
    subs.push_back(s);
  }
  {
    Sub s; s.name = "c13.history"; s.property = "C13"; s.instances = 18; s.n_quick = 3000; s.n_thorough = 60000; s.run = model_history_any;
    s.gen = [](int inst) { return gen_model_history((inst / 3) % 3, inst % 3, 1 + inst / 9); };
    s.instance_name = [](int inst) { return std::string(inst / 9 ? "Compressible<" : "Incompressible<") + ntinfo((inst / 3) % 3).name + ">/arg<" + ntinfo(inst % 3).name + ">"; };
    s.rule = "stateful: the same histories (stress query, strain-rate query, interface queries, copy- / move-assignment, copy- / move-construction) on one fluid model object of either class; oracle: bit-identical to a freshly "
             "constructed model of the current viscosities after every step; non-trivial: query, reassignment of different viscosities, query";
    subs.push_back(s);
  }
  return engine_main(argc, argv, subs);
}
