// C-like interface: one row per (quantity type, numeric type).  All values travel as flat long double component
// buffers in declared component order (1, 2, 3, 6 or 9 components).
#pragma once
typedef long double VfLD;
#define VF_IFACE_NCHUNKS 6

struct VfQuantity {
  const char* name;
  int nt;            // numeric type of this row
  int ncomp;         // 1, 2, 3, 6, 9
  int kind;          // 0 dimensional, 1 dimensionless, 2 direction (normalising)
  int has_dims; int dims[7];
  const char* unit_type;            // "" for dimensionless
  int n_units; const char* const* unit_names; int standard;   // declared enumerators of the unit type
  // C17 static facts, reported at run time
  unsigned long size, align; int trivially_copyable, standard_layout, polymorphic;
  // make from standard-unit components, read back what is stored
  void (*roundtrip)(const VfLD* in, VfLD* stored);
  void (*zero)(VfLD* out);
  void (*memcpy_array)(const VfLD* in, int count, VfLD* out);  // raw numbers memcpy'd over an array of quantities, read back through Value()
  // history of mutators.  op: 0 SetValue(v) 1 MutableValue()=v 2 MutableValue().Mutable_<c>()=x 3 MutableValue().Set_<c>(x) 4 copy-assign round trip 5 memcpy round trip
  // args: per op 9 numbers (v) ; comp: component index for ops 2,3 ; out: ncomp numbers after each op.  returns 0, or -1 if an op is not available for this type
  int (*history)(const VfLD* init, const int* ops, const int* comp, const VfLD* args, int nops, VfLD* after_each);
  // C14
  int (*compare)(const VfLD* a, const VfLD* b, VfLD* stored_a, VfLD* stored_b);  // bit 0 ==, 1 !=, 2 <, 3 >, 4 <=, 5 >=
  unsigned long (*hash)(const VfLD* a);
  void (*containers)(const VfLD* vals, int count, VfLD* stored, int* out3);  // out3: set size, unordered_set size, number of members found again in both
  // C16: this row's numeric type -> to_nt ; via 0 converting constructor, 1 converting assignment
  // via: 0 converting constructor, 1 converting assignment into a target that holds an unrelated value, 2 converting assignment into a target that holds `prior`
  void (*cast)(int to_nt, int via, const VfLD* in, const VfLD* prior, VfLD* stored_src, VfLD* out);
  // C02 / C15: units (null for dimensionless rows)
  void (*in_unit)(const VfLD* in, int unit, VfLD* stored);          // Q(v, unit)
  void (*value_unit)(const VfLD* stored, int unit, VfLD* out);      // q.Value(unit)
  void (*static_value)(const VfLD* stored, int unit, VfLD* out);    // q.StaticValue<unit>()
  int n_create;                                                      // number of Create<unit>(...) overloads (numbers, std::array, value type)
  void (*create)(const VfLD* in, int unit, int overload, VfLD* stored);
  // form: 0 Print 1 JSON 2 XML 3 YAML 4 operator<< ; unit -1: the form without a unit argument
  const char* (*print)(const VfLD* in, int form, int unit, unsigned long* len, VfLD* stored);  // stored: components of the very object that was printed
  const char* (*unit_abbrev)(int unit, unsigned long* len);
  const char* (*print_number)(VfLD x, unsigned long* len);           // PhQ::Print<T>(x)
  VfLD (*convert_scalar)(VfLD x, int from, int to);                  // PhQ::Convert on a plain number of this unit type
  int (*parse_number)(const char* text, unsigned long len, VfLD* out); // PhQ::ParseNumber<T>: 1 if it has a value
};

#define VF_DECL_QTY(N, C) extern "C" int vf_qty_count_##N##_##C(); extern "C" const VfQuantity* vf_qty_##N##_##C(int i);
#define VF_DECL_QTY_NT(N) VF_DECL_QTY(N, 0) VF_DECL_QTY(N, 1) VF_DECL_QTY(N, 2) VF_DECL_QTY(N, 3) VF_DECL_QTY(N, 4) VF_DECL_QTY(N, 5)
VF_DECL_QTY_NT(0) VF_DECL_QTY_NT(1) VF_DECL_QTY_NT(2)
