// libFuzzer target for the two parsers (C08: non-spellings parse to nothing; C20: total on arbitrary bytes, never throw).
// byte 0 selects the parser: 0..2 ParseNumber<float|double|long double>, >= 3 ParseEnumeration of enumeration type (byte - 3) % 39.
// The semantic oracle is inside the target; any disagreement traps (the crash artefact is the replay file).
#include "units.inc"
#include <cerrno>
#include <cstdint>
#include <cstdio>
#include <cstdlib>
#include <cstring>
#include <functional>
#include <string>
#include <unordered_set>
#include <vector>

using namespace PhQ;

struct EnumType { std::string name; std::vector<std::pair<std::string, int>> keys; std::function<int(const std::string&)> parse; };
static std::vector<EnumType>& types() {
  static std::vector<EnumType> t = [] {
    std::vector<EnumType> v;
    auto add = [&v](const char* name, auto tag) {
      using E = typename decltype(tag)::type;
      EnumType t; t.name = name;
      for (auto& kv : Internal::Spellings<E>) t.keys.emplace_back(std::string(kv.first), (int)kv.second);
      t.parse = [](const std::string& s) { const std::optional<E> r = ParseEnumeration<E>(s); return r.has_value() ? (int)r.value() : -1; };
      v.push_back(t);
    };
#define VF_T(T) add(#T, std::common_type<Unit::T>{});
    VF_UNIT_TYPES(VF_T)
#undef VF_T
    add("UnitSystem", std::common_type<UnitSystem>{});
    add("ConstitutiveModel::Type", std::common_type<ConstitutiveModel::Type>{});
    return v;
  }();
  return t;
}
static long g_execs = 0, g_nontrivial = 0, g_keys = 0, g_numbers = 0;
static std::unordered_set<uint64_t>& seen() { static std::unordered_set<uint64_t> s; return s; }
static void dump_stats() {
  const char* p = std::getenv("VERIF_FUZZ_STATS"); if (!p) return;
  FILE* f = std::fopen(p, "w"); if (!f) return;
  std::fprintf(f, "{\"executions\": %ld, \"with_payload\": %ld, \"distinct_payloads\": %zu, \"accepted_spellings\": %ld, \"parsed_numbers\": %ld}\n", g_execs, g_nontrivial, seen().size(), g_keys, g_numbers);
  std::fclose(f);
}
[[noreturn]] static void fail(const char* what, const std::string& s, int sel) {
  std::fprintf(stderr, "ORACLE-FAILURE %s (selector %d) on input of %zu bytes: ", what, sel, s.size());
  for (unsigned char c : s) std::fprintf(stderr, c >= 0x20 && c < 0x7f ? "%c" : "\\x%02x", c);
  std::fprintf(stderr, "\n");
  dump_stats();
  __builtin_trap();
}
template <class T> static T strto(const char* s, char** e);
template <> float strto<float>(const char* s, char** e) { return std::strtof(s, e); }
template <> double strto<double>(const char* s, char** e) { return std::strtod(s, e); }
template <> long double strto<long double>(const char* s, char** e) { return std::strtold(s, e); }
template <class T> static void number(const std::string& s, int sel) {
  std::optional<T> got;
  try { got = ParseNumber<T>(s); } catch (...) { fail("ParseNumber threw", s, sel); }
  errno = 0; char* end = nullptr; const T ref = strto<T>(s.c_str(), &end);
  const bool has = end != s.c_str() && errno != ERANGE;
  if (got.has_value() != has) fail(has ? "ParseNumber has no value although strto* parses a number" : "ParseNumber has a value although strto* rejects the bytes", s, sel);
  if (has) { g_numbers++; const T g = got.value(); if (!(g != g && ref != ref) && std::memcmp(&g, &ref, sizeof(T) == 16 ? 10 : sizeof(T)) != 0) fail("ParseNumber differs from strto*", s, sel); }
}
extern "C" int LLVMFuzzerInitialize(int*, char***) { types(); seen().reserve(1 << 16); std::atexit(dump_stats); return 0; }  // seen() is constructed before the handler is registered, hence destroyed after it ran
extern "C" int LLVMFuzzerTestOneInput(const uint8_t* data, size_t size) {
  g_execs++;
  if (size < 1) return 0;
  const int sel = data[0];
  const std::string s(reinterpret_cast<const char*>(data + 1), size - 1);
  if (!s.empty()) { g_nontrivial++; if (seen().size() < 2000000) { uint64_t h = 1469598103934665603ull; for (size_t i = 0; i < size; i++) { h ^= data[i]; h *= 1099511628211ull; } seen().insert(h); } }
  if (sel == 0) { number<float>(s, sel); return 0; }
  if (sel == 1) { number<double>(s, sel); return 0; }
  if (sel == 2) { number<long double>(s, sel); return 0; }
  const EnumType& T = types()[(size_t)(sel - 3) % types().size()];
  int got;
  try { got = T.parse(s); } catch (...) { fail("ParseEnumeration threw", s, sel); }
  int want = -1; for (auto& kv : T.keys) if (kv.first == s) { want = kv.second; break; }
  if (want >= 0) g_keys++;
  if (got != want) fail(want < 0 ? "ParseEnumeration accepts a string that is not an accepted spelling" : "ParseEnumeration disagrees with the spelling table", s, sel);
  return 0;
}
