// Relation registry for one numeric type and one chunk of quantity types (-DVF_NT=k -DVF_CHUNK=j):
//  * every binary operator A op B found by SFINAE with A in this chunk and B any of the quantity types or a plain number
//    (and number op A), op in + - * /, and the compound assignments A op= B;
//  * every constructor C(A...) proposed by the scanner with C in this chunk (confirmed with is_constructible);
//  * every member function a.M() / a.M(b) proposed by the scanner with A in this chunk.
// The raw math types (Vector, Dyad ...) are deliberately not operands here: their operators are unconstrained templates (C09 covers them).
#include "phq_helpers.hpp"
#include "rel_iface.hpp"
#include <cmath>
#include <deque>

#ifndef VF_CHUNK
#error "compile with -DVF_CHUNK=0..5"
#endif

using namespace vfh;
using T = VfT;

namespace {

std::vector<VfRelation> g_rel;
std::vector<VfCompound> g_cmp;
std::vector<VfStdFn> g_std;
std::deque<std::string> g_names;  // keeps c_str() alive (deque: no relocation)
const char* keep(const std::string& s) { g_names.push_back(s); return g_names.back().c_str(); }

template <class X> VfArg arg_of() {
  VfArg a{};
  a.name = NameOf<X, T>::v; a.ncomp = ncomp<X>(); a.kind = kind_of<X>(); dims_of<X>(a.dims);
  if (a.kind == 4) a.name = "math";
  return a;
}

#define VF_DET(NAME, EXPR)                                            \
  template <class A, class B, class = void> struct NAME : std::false_type {}; \
  template <class A, class B> struct NAME<A, B, std::void_t<decltype(EXPR)>> : std::true_type {};
VF_DET(HasAdd, std::declval<const A&>() + std::declval<const B&>())
VF_DET(HasSub, std::declval<const A&>() - std::declval<const B&>())
VF_DET(HasMul, std::declval<const A&>() * std::declval<const B&>())
VF_DET(HasDiv, std::declval<const A&>() / std::declval<const B&>())
VF_DET(HasAddEq, std::declval<A&>() += std::declval<const B&>())
VF_DET(HasSubEq, std::declval<A&>() -= std::declval<const B&>())
VF_DET(HasMulEq, std::declval<A&>() *= std::declval<const B&>())
VF_DET(HasDivEq, std::declval<A&>() /= std::declval<const B&>())

template <int OP, class A, class B> auto apply(const A& a, const B& b) {
  if constexpr (OP == 0) return a + b; else if constexpr (OP == 1) return a - b; else if constexpr (OP == 2) return a * b; else return a / b;
}
template <int OP, class A, class B> void op_thunk(const VfLD* const* in, VfLD* const* st, VfLD* out) {
  const A a = make<A, T>(in[0]); const B b = make<B, T>(in[1]);
  flat(a, st[0]); flat(b, st[1]);
  const auto r = apply<OP>(a, b);
  flat(r, out);
}
template <int OP, class A, class B> void opeq_thunk(const VfLD* const* in, VfLD* const* st, VfLD* out) {
  A a = make<A, T>(in[0]); const B b = make<B, T>(in[1]);
  flat(a, st[0]); flat(b, st[1]);
  if constexpr (OP == 0) a += b; else if constexpr (OP == 1) a -= b; else if constexpr (OP == 2) a *= b; else a /= b;
  flat(a, out);
}
const char* const kOpName[] = {"+", "-", "*", "/"};
template <int OP, class A, class B> void reg_op() {
  using R = decltype(apply<OP>(std::declval<const A&>(), std::declval<const B&>()));
  VfRelation r{};
  r.kind = OP; r.nt = VF_NT; r.nargs = 2; r.args[0] = arg_of<A>(); r.args[1] = arg_of<B>(); r.res = arg_of<std::decay_t<R>>();
  r.name = keep(std::string(r.args[0].name) + " " + kOpName[OP] + " " + r.args[1].name);
  r.member = ""; r.f = &op_thunk<OP, A, B>;
  g_rel.push_back(r);
}
template <int OP, class A, class B> void reg_opeq() {
  VfRelation r{};
  r.kind = 7 + OP; r.nt = VF_NT; r.nargs = 2; r.args[0] = arg_of<A>(); r.args[1] = arg_of<B>(); r.res = arg_of<A>();
  r.name = keep(std::string(r.args[0].name) + " " + kOpName[OP] + "= " + r.args[1].name);
  r.member = ""; r.f = &opeq_thunk<OP, A, B>;
  g_rel.push_back(r);
}
template <class A, class B> void pair_ops() {
  if constexpr (HasAdd<A, B>::value) reg_op<0, A, B>();
  if constexpr (HasSub<A, B>::value) reg_op<1, A, B>();
  if constexpr (HasMul<A, B>::value) reg_op<2, A, B>();
  if constexpr (HasDiv<A, B>::value) reg_op<3, A, B>();
  if constexpr (!std::is_arithmetic_v<A>) {
    if constexpr (HasAddEq<A, B>::value) reg_opeq<0, A, B>();
    if constexpr (HasSubEq<A, B>::value) reg_opeq<1, A, B>();
    if constexpr (HasMulEq<A, B>::value) reg_opeq<2, A, B>();
    if constexpr (HasDivEq<A, B>::value) reg_opeq<3, A, B>();
  }
}
template <template <class> class A> void row_ops() {
#define VF_Q(n) pair_ops<A<T>, PhQ::n<T>>();
  VF_QUANTITIES(VF_Q)
#undef VF_Q
  pair_ops<A<T>, T>();
  pair_ops<T, A<T>>();
}

// ---- compound-assignment histories ---------------------------------------------------------------------
template <class A> void cmp_run(const VfLD* init, const int* ops, const VfLD* args, int nops, int mode, VfLD* after, VfLD* stored_args) {
  constexpr int N = ncomp<A>();
  A x = make<A, T>(init);
  for (int k = 0; k < nops; k++) {
    const VfLD* a = args + 9 * k;
    if (ops[k] >= 4) {
      // the object is its own operand: x += x, x -= x, self copy-assignment, move-assignment from a copy of itself
      flat(x, stored_args + 9 * k);
      const A& self = x;
      switch (ops[k]) {
        case 4: if (mode == 0) x += self; else x = x + self; break;
        case 5: if (mode == 0) x -= self; else x = x - self; break;
        case 6: if (mode == 0) x = self; else x = A(self); break;
        default: { A t(self); x = std::move(t); break; }
      }
    } else if (ops[k] <= 1) {
      const A y = make<A, T>(a); flat(y, stored_args + 9 * k);
      if (mode == 0) { if (ops[k] == 0) x += y; else x -= y; } else { if (ops[k] == 0) x = x + y; else x = x - y; }
    } else {
      const T n = (T)a[0]; stored_args[9 * k] = n;
      if (mode == 0) { if (ops[k] == 2) x *= n; else x /= n; } else { if (ops[k] == 2) x = x * n; else x = x / n; }
    }
    flat(x, after + (size_t)k * N);
  }
}
template <template <class> class QT> void reg_compound() {
  using A = QT<T>;
  if constexpr (HasAddEq<A, A>::value && HasSubEq<A, A>::value && HasMulEq<A, T>::value && HasDivEq<A, T>::value && HasAdd<A, A>::value && HasSub<A, A>::value && HasMul<A, T>::value && HasDiv<A, T>::value) {
    if constexpr (std::is_same_v<decltype(std::declval<const A&>() + std::declval<const A&>()), A> && std::is_same_v<decltype(std::declval<const A&>() - std::declval<const A&>()), A> &&
                  std::is_same_v<decltype(std::declval<const A&>() * std::declval<const T&>()), A> && std::is_same_v<decltype(std::declval<const A&>() / std::declval<const T&>()), A>) {
      VfCompound c{}; c.name = QName<QT>::v; c.nt = VF_NT; c.ncomp = ncomp<A>(); c.kind = kind_of<A>(); c.run = &cmp_run<A>;
      g_cmp.push_back(c);
    }
  }
}

// ---- std:: overloads for dimensionless scalars ----------------------------------------------------------
template <class A, class = void> struct HasStdExp : std::false_type {};
template <class A> struct HasStdExp<A, std::void_t<decltype(std::exp(std::declval<const A&>()))>> : std::true_type {};
template <class A, int F> VfLD std_thunk(VfLD x, VfLD y, int et, VfLD* stored) {
  const A a = make<A, T>(&x); flat(a, stored);
  if constexpr (F == 0) return (VfLD)std::abs(a);
  else if constexpr (F == 1) return (VfLD)std::cbrt(a);
  else if constexpr (F == 2) return (VfLD)std::exp(a);
  else if constexpr (F == 3) return (VfLD)std::log(a);
  else if constexpr (F == 4) return (VfLD)std::log2(a);
  else if constexpr (F == 5) return (VfLD)std::log10(a);
  else if constexpr (F == 6) return (VfLD)std::sqrt(a);
  else { switch (et) { case 0: return (VfLD)std::pow(a, (float)y); case 1: return (VfLD)std::pow(a, (double)y); case 2: return (VfLD)std::pow(a, (long double)y); default: return (VfLD)std::pow(a, (int)y); } }
}
template <template <class> class QT> void reg_std() {
  using A = QT<T>;
  if constexpr (kind_of<A>() == 1 && ncomp<A>() == 1 && HasStdExp<A>::value) {
    static const char* names[] = {"abs", "cbrt", "exp", "log", "log2", "log10", "sqrt", "pow"};
    VfStdFn s{}; s.qname = QName<QT>::v; s.nt = VF_NT;
    s.fname = names[0]; s.binary = 0; s.f = &std_thunk<A, 0>; g_std.push_back(s);
    s.fname = names[1]; s.f = &std_thunk<A, 1>; g_std.push_back(s);
    s.fname = names[2]; s.f = &std_thunk<A, 2>; g_std.push_back(s);
    s.fname = names[3]; s.f = &std_thunk<A, 3>; g_std.push_back(s);
    s.fname = names[4]; s.f = &std_thunk<A, 4>; g_std.push_back(s);
    s.fname = names[5]; s.f = &std_thunk<A, 5>; g_std.push_back(s);
    s.fname = names[6]; s.f = &std_thunk<A, 6>; g_std.push_back(s);
    s.fname = names[7]; s.binary = 1; s.f = &std_thunk<A, 7>; g_std.push_back(s);
  }
}

// ---- constructors ------------------------------------------------------------------------------------------
template <class C, class... A> void ctor_thunk(const VfLD* const* in, VfLD* const* st, VfLD* out) {
  int k = 0;
  auto mk = [&](auto tag) { using X = typename decltype(tag)::type; X x = make<X, T>(in[k]); flat(x, st[k]); k++; return x; };
  const C c{mk(std::common_type<A>{})...};  // braces: left-to-right evaluation
  flat(c, out);
}
template <class C, class... A> void reg_ctor(const char* text) {
  if constexpr (std::is_constructible_v<C, const A&...>) {
    VfRelation r{};
    r.kind = 4; r.nt = VF_NT; r.nargs = (int)sizeof...(A); int i = 0; ((r.args[i++] = arg_of<A>()), ...); r.res = arg_of<C>();
    r.name = keep(text); r.member = ""; r.f = &ctor_thunk<C, A...>;
    g_rel.push_back(r);
  }
}
// ---- members ---------------------------------------------------------------------------------------------
#define VF_MEM0(A, FN, RT)                                                                          \
  {                                                                                                 \
    VfRelation r{}; r.kind = 5; r.nt = VF_NT; r.nargs = 1; r.args[0] = arg_of<PhQ::A<T>>();          \
    using RR = std::decay_t<decltype(std::declval<const PhQ::A<T>&>().FN())>;                        \
    r.res = arg_of<RR>(); r.name = keep(#A "." #FN "()"); r.member = #FN;                            \
    r.f = [](const VfLD* const* in, VfLD* const* st, VfLD* out) { const PhQ::A<T> a = make<PhQ::A<T>, T>(in[0]); flat(a, st[0]); flat(a.FN(), out); }; \
    g_rel.push_back(r);                                                                             \
  }
#define VF_MEM1(A, FN, RT, B)                                                                       \
  {                                                                                                 \
    VfRelation r{}; r.kind = 6; r.nt = VF_NT; r.nargs = 2; r.args[0] = arg_of<PhQ::A<T>>(); r.args[1] = arg_of<PhQ::B<T>>(); \
    using RR = std::decay_t<decltype(std::declval<const PhQ::A<T>&>().FN(std::declval<const PhQ::B<T>&>()))>; \
    r.res = arg_of<RR>(); r.name = keep(#A "." #FN "(" #B ")"); r.member = #FN;                      \
    r.f = [](const VfLD* const* in, VfLD* const* st, VfLD* out) {                                    \
      const PhQ::A<T> a = make<PhQ::A<T>, T>(in[0]); const PhQ::B<T> b = make<PhQ::B<T>, T>(in[1]); flat(a, st[0]); flat(b, st[1]); flat(a.FN(b), out); }; \
    g_rel.push_back(r);                                                                             \
  }

void fill() {
#define VF_Q(n) row_ops<PhQ::n>(); reg_compound<PhQ::n>(); reg_std<PhQ::n>();
  VF_CAT(VF_QCHUNK_, VF_CHUNK)(VF_Q)
#undef VF_Q
#define VF_C1(C, A) reg_ctor<PhQ::C<T>, PhQ::A<T>>(#C "(" #A ")");
#define VF_C2(C, A, B) reg_ctor<PhQ::C<T>, PhQ::A<T>, PhQ::B<T>>(#C "(" #A "," #B ")");
#define VF_C3(C, A, B, D) reg_ctor<PhQ::C<T>, PhQ::A<T>, PhQ::B<T>, PhQ::D<T>>(#C "(" #A "," #B "," #D ")");
#define VF_C4(C, A, B, D, E) reg_ctor<PhQ::C<T>, PhQ::A<T>, PhQ::B<T>, PhQ::D<T>, PhQ::E<T>>(#C "(" #A "," #B "," #D "," #E ")");
#define VF_C6(C, A, B, D, E, F, G) reg_ctor<PhQ::C<T>, PhQ::A<T>, PhQ::B<T>, PhQ::D<T>, PhQ::E<T>, PhQ::F<T>, PhQ::G<T>>(#C "(" #A " x6)");
#define VF_C9(C, A, B, D, E, F, G, H, I, J) reg_ctor<PhQ::C<T>, PhQ::A<T>, PhQ::B<T>, PhQ::D<T>, PhQ::E<T>, PhQ::F<T>, PhQ::G<T>, PhQ::H<T>, PhQ::I<T>, PhQ::J<T>>(#C "(" #A " x9)");
  VF_CAT(VF_CTORS_1_, VF_CHUNK)(VF_C1)
  VF_CAT(VF_CTORS_2_, VF_CHUNK)(VF_C2)
  VF_CAT(VF_CTORS_3_, VF_CHUNK)(VF_C3)
  VF_CAT(VF_CTORS_4_, VF_CHUNK)(VF_C4)
  VF_CAT(VF_CTORS_6_, VF_CHUNK)(VF_C6)
  VF_CAT(VF_CTORS_9_, VF_CHUNK)(VF_C9)
  VF_CAT(VF_MEMBERS_0_, VF_CHUNK)(VF_MEM0)
  VF_CAT(VF_MEMBERS_1_, VF_CHUNK)(VF_MEM1)
}
bool g_filled = false;
void ensure() { if (!g_filled) { g_filled = true; fill(); } }
}  // namespace

#define VF_SYM2(name) VF_CAT(VF_CAT(VF_CAT(name, VF_NT), _), VF_CHUNK)
extern "C" int VF_SYM2(vf_rel_count_)() { ensure(); return (int)g_rel.size(); }
extern "C" const VfRelation* VF_SYM2(vf_rel_)(int i) { ensure(); return &g_rel[(size_t)i]; }
extern "C" int VF_SYM2(vf_cmp_count_)() { ensure(); return (int)g_cmp.size(); }
extern "C" const VfCompound* VF_SYM2(vf_cmp_)(int i) { ensure(); return &g_cmp[(size_t)i]; }
extern "C" int VF_SYM2(vf_std_count_)() { ensure(); return (int)g_std.size(); }
extern "C" const VfStdFn* VF_SYM2(vf_std_)(int i) { ensure(); return &g_std[(size_t)i]; }
