// Unit registry for one numeric type (-DVF_NT): every unit type, every declared enumerator, the run-time conversion
// (dispatch tables) and the compile-time conversions u->standard, standard->u, u->next(u).
#include "units.inc"
#include "units_iface.hpp"
#include "nt.hpp"
#include <array>
#include <utility>
#include <vector>

using namespace PhQ;

template <class U> struct Decl;
#define VF_E(T, E) Unit::T::E,
#define VF_N(T, E) #E,
#define VF_T(T)                                                             \
  template <> struct Decl<Unit::T> {                                        \
    static constexpr Unit::T e[] = {VF_ENUMS_##T(VF_E)};                    \
    static constexpr int n = sizeof(e) / sizeof(e[0]);                      \
    static constexpr const char* names[] = {VF_ENUMS_##T(VF_N)};            \
    static constexpr const char* tname = #T;                                \
  };
VF_UNIT_TYPES(VF_T)
#undef VF_T
#undef VF_E
#undef VF_N

template <class U> static VfLD conv(VfLD x, int from, int to) {
  return (VfLD)Convert<U, VfT>((VfT)x, Decl<U>::e[from], Decl<U>::e[to]);
}
template <class U, int I> static VfLD stat_one(VfLD x, int kind) {
  constexpr U u = Decl<U>::e[I];
  constexpr U nx = Decl<U>::e[(I + 1) % Decl<U>::n];
  const VfT v = (VfT)x;
  if (kind == 0) return (VfLD)ConvertStatically<U, u, Standard<U>, VfT>(v);
  if (kind == 1) return (VfLD)ConvertStatically<U, Standard<U>, u, VfT>(v);
  return (VfLD)ConvertStatically<U, u, nx, VfT>(v);
}
template <class U, std::size_t... I> static VfLD stat_all(VfLD x, int kind, int u, std::index_sequence<I...>) {
  using F = VfLD (*)(VfLD, int);
  static constexpr F tab[] = {&stat_one<U, (int)I>...};
  return tab[u](x, kind);
}
template <class U> static VfLD stat(VfLD x, int kind, int u) { return stat_all<U>(x, kind, u, std::make_index_sequence<Decl<U>::n>{}); }

template <class U> static VfUnitType row() {
  static std::vector<int> values;
  values.clear();
  int std_idx = -1;
  for (int i = 0; i < Decl<U>::n; i++) { values.push_back((int)Decl<U>::e[i]); if (Decl<U>::e[i] == Standard<U>) std_idx = i; }
  return VfUnitType{Decl<U>::tname, Decl<U>::n, Decl<U>::names, values.data(), std_idx, &conv<U>, &stat<U>};
}
static const std::vector<VfUnitType>& table() {
  static const std::vector<VfUnitType> t = [] {
    std::vector<VfUnitType> v;
#define VF_T(T) v.push_back(row<Unit::T>());
    VF_UNIT_TYPES(VF_T)
#undef VF_T
    return v;
  }();
  return t;
}
extern "C" int VF_SYM(vf_units_count_)() { return (int)table().size(); }
extern "C" const VfUnitType* VF_SYM(vf_units_)(int k) { return &table()[k]; }
