// Unit registry for one numeric type (-DVF_NT): every unit type, every declared enumerator, the run-time conversion
// (dispatch tables) and the compile-time conversions for all ordered pairs (scalars) / to, from the standard unit and to the next two units (containers).
#include "units.inc"
#include "units_iface.hpp"
#include "nt.hpp"
#include <PhQ/Dyad.hpp>
#include <PhQ/PlanarVector.hpp>
#include <PhQ/SymmetricDyad.hpp>
#include <PhQ/Vector.hpp>
#include <array>
#include <optional>
#include <utility>
#include <vector>

using namespace PhQ;

template <class U> struct Decl;
#define VF_E(T, E) Unit::T::E,
#define VF_N(T, E) #E,
#define VF_T(T)                                                             \
  template <> struct Decl<Unit::T> {                                        \
    static constexpr Unit::T e[] = {VF_ENUMS_##T(VF_E)};                    \
    static constexpr int n = sizeof(e) / sizeof(e[0]);                      \
    static constexpr const char* names[] = {VF_ENUMS_##T(VF_N)};            \
    static constexpr const char* tname = #T;                                \
  };
VF_UNIT_TYPES(VF_T)
#undef VF_T
#undef VF_E
#undef VF_N

template <class U> static VfLD conv(VfLD x, int from, int to) {
  return (VfLD)Convert<U, VfT>((VfT)x, Decl<U>::e[from], Decl<U>::e[to]);
}
// compile-time conversions: ALL ordered pairs of declared units (a two-level table of instantiations)
template <class U, int I, int J> static VfLD stat_pair(VfLD x) {
  constexpr U a = Decl<U>::e[I];
  constexpr U b = Decl<U>::e[J];
  return (VfLD)ConvertStatically<U, a, b, VfT>((VfT)x);
}
template <class U, int I, std::size_t... J> static VfLD stat_row(VfLD x, int to, std::index_sequence<J...>) {
  using F = VfLD (*)(VfLD);
  static constexpr F tab[] = {&stat_pair<U, I, (int)J>...};
  return tab[to](x);
}
template <class U, int I> static VfLD stat_row_of(VfLD x, int to) { return stat_row<U, I>(x, to, std::make_index_sequence<Decl<U>::n>{}); }
template <class U, std::size_t... I> static VfLD stat_all(VfLD x, int from, int to, std::index_sequence<I...>) {
  using F = VfLD (*)(VfLD, int);
  static constexpr F tab[] = {&stat_row_of<U, (int)I>...};
  return tab[from](x, to);
}
template <class U> static VfLD stat(VfLD x, int from, int to) { return stat_all<U>(x, from, to, std::make_index_sequence<Decl<U>::n>{}); }

// ---- container overloads -------------------------------------------------------------------------------------
template <class U, std::size_t N> static int arr_dyn(int form, const VfLD* in, U from, U to, VfLD* out, VfLD* after) {
  std::array<VfT, N> a; for (std::size_t i = 0; i < N; i++) a[i] = (VfT)in[i];
  if (form == 0) { const std::array<VfT, N> r = Convert<U, N, VfT>(a, from, to); for (std::size_t i = 0; i < N; i++) { out[i] = r[i]; after[i] = a[i]; } }
  else { ConvertInPlace<U, N, VfT>(a, from, to); for (std::size_t i = 0; i < N; i++) { out[i] = a[i]; after[i] = a[i]; } }
  return (int)N;
}
template <class V> static void vflat(const V& v, VfLD* o);
template <> void vflat(const PlanarVector<VfT>& v, VfLD* o) { o[0] = v.x(); o[1] = v.y(); }
template <> void vflat(const Vector<VfT>& v, VfLD* o) { o[0] = v.x(); o[1] = v.y(); o[2] = v.z(); }
template <> void vflat(const SymmetricDyad<VfT>& v, VfLD* o) { o[0] = v.xx(); o[1] = v.xy(); o[2] = v.xz(); o[3] = v.yy(); o[4] = v.yz(); o[5] = v.zz(); }
template <> void vflat(const Dyad<VfT>& v, VfLD* o) { o[0] = v.xx(); o[1] = v.xy(); o[2] = v.xz(); o[3] = v.yx(); o[4] = v.yy(); o[5] = v.yz(); o[6] = v.zx(); o[7] = v.zy(); o[8] = v.zz(); }
static PlanarVector<VfT> mk_pv(const VfLD* c) { return PlanarVector<VfT>((VfT)c[0], (VfT)c[1]); }
static Vector<VfT> mk_v(const VfLD* c) { return Vector<VfT>((VfT)c[0], (VfT)c[1], (VfT)c[2]); }
static SymmetricDyad<VfT> mk_s(const VfLD* c) { return SymmetricDyad<VfT>((VfT)c[0], (VfT)c[1], (VfT)c[2], (VfT)c[3], (VfT)c[4], (VfT)c[5]); }
static Dyad<VfT> mk_d(const VfLD* c) { return Dyad<VfT>((VfT)c[0], (VfT)c[1], (VfT)c[2], (VfT)c[3], (VfT)c[4], (VfT)c[5], (VfT)c[6], (VfT)c[7], (VfT)c[8]); }
template <class U, class V> static void shaped_dyn(int form, V v, U from, U to, VfLD* out, VfLD* after) {
  if (form == 0) { const V r = Convert<U, VfT>(v, from, to); vflat(r, out); vflat(v, after); }
  else { ConvertInPlace<U, VfT>(v, from, to); vflat(v, out); vflat(v, after); }
}
// compile-time conversions on containers: unit I -> standard (D = -2), standard -> unit I (D = -1), unit I -> unit (I + D) mod n for D = 0, 1, 2
template <class U, int I, int D> static int stat_container(int shape, const VfLD* in, int n, VfLD* out, VfLD* after) {
  constexpr U a = D == -1 ? Standard<U> : Decl<U>::e[I];
  constexpr U b = D == -2 ? Standard<U> : D == -1 ? Decl<U>::e[I] : Decl<U>::e[(I + D) % Decl<U>::n];
  auto run = [&](auto v) {
    using V = decltype(v);
    const V r = ConvertStatically<U, a, b, VfT>(v); vflat(r, out);
    vflat(v, after);
  };
  switch (shape) {
    case 0: { if (n != 1) return -1; const VfT x = (VfT)in[0]; out[0] = ConvertStatically<U, a, b, VfT>(x); after[0] = x; return 1; }
    case 1: {
      if (n != 3) return -1;
      const std::array<VfT, 3> arr{(VfT)in[0], (VfT)in[1], (VfT)in[2]};
      const std::array<VfT, 3> r = ConvertStatically<U, a, b, 3, VfT>(arr);
      for (int i = 0; i < 3; i++) { out[i] = r[(std::size_t)i]; after[i] = arr[(std::size_t)i]; }
      return 3;
    }
    case 3: run(mk_pv(in)); return 2;
    case 4: run(mk_v(in)); return 3;
    case 5: run(mk_s(in)); return 6;
    case 6: run(mk_d(in)); return 9;
    default: return -1;
  }
}
template <class U, int I> static int stat_container_modes(int mode, int shape, const VfLD* in, int n, VfLD* out, VfLD* after) {
  switch (mode) {
    case -2: return stat_container<U, I, -2>(shape, in, n, out, after);
    case -1: return stat_container<U, I, -1>(shape, in, n, out, after);
    case 0: return stat_container<U, I, 0>(shape, in, n, out, after);
    case 1: return stat_container<U, I, 1>(shape, in, n, out, after);
    case 2: return stat_container<U, I, 2>(shape, in, n, out, after);
    default: return -1;
  }
}
template <class U, std::size_t... I> static int stat_container_all(int unit, int mode, int shape, const VfLD* in, int n, VfLD* out, VfLD* after, std::index_sequence<I...>) {
  using F = int (*)(int, int, const VfLD*, int, VfLD*, VfLD*);
  static constexpr F tab[] = {&stat_container_modes<U, (int)I>...};
  return tab[unit](mode, shape, in, n, out, after);
}
template <class U> static int conv_container(int shape, int form, const VfLD* in, int n, int from, int to, VfLD* out, VfLD* after) {
  const U f = Decl<U>::e[from], t = Decl<U>::e[to];
  if (form == 2) {
    // supported compile-time pairs: from == standard, to == standard, to == from + {0, 1, 2} (cyclic); anything else is "not applicable"
    int std_idx = -1; for (int i = 0; i < Decl<U>::n; i++) if (Decl<U>::e[i] == Standard<U>) std_idx = i;
    const auto seq = std::make_index_sequence<Decl<U>::n>{};
    const int d = ((to - from) % Decl<U>::n + Decl<U>::n) % Decl<U>::n;
    if (d <= 2) return stat_container_all<U>(from, d, shape, in, n, out, after, seq);
    if (to == std_idx) return stat_container_all<U>(from, -2, shape, in, n, out, after, seq);
    if (from == std_idx) return stat_container_all<U>(to, -1, shape, in, n, out, after, seq);
    return -1;
  }
  switch (shape) {
    case 0: { if (form != 1) return -1; VfT x = (VfT)in[0]; ConvertInPlace<U, VfT>(x, f, t); out[0] = x; after[0] = x; return 1; }
    case 1:
      switch (n) { case 1: return arr_dyn<U, 1>(form, in, f, t, out, after); case 2: return arr_dyn<U, 2>(form, in, f, t, out, after); case 3: return arr_dyn<U, 3>(form, in, f, t, out, after); case 4: return arr_dyn<U, 4>(form, in, f, t, out, after);
        case 5: return arr_dyn<U, 5>(form, in, f, t, out, after); case 6: return arr_dyn<U, 6>(form, in, f, t, out, after); case 7: return arr_dyn<U, 7>(form, in, f, t, out, after); case 8: return arr_dyn<U, 8>(form, in, f, t, out, after);
        case 9: return arr_dyn<U, 9>(form, in, f, t, out, after); default: return -1; }
    case 2: {
      std::vector<VfT> v((std::size_t)n); for (int i = 0; i < n; i++) v[(std::size_t)i] = (VfT)in[i];
      if (form == 0) { const std::vector<VfT> r = Convert<U, VfT>(v, f, t); if ((int)r.size() != n) return -2; for (int i = 0; i < n; i++) { out[i] = r[(std::size_t)i]; after[i] = v[(std::size_t)i]; } }
      else { ConvertInPlace<U, VfT>(v, f, t); if ((int)v.size() != n) return -2; for (int i = 0; i < n; i++) { out[i] = v[(std::size_t)i]; after[i] = v[(std::size_t)i]; } }
      return n;
    }
    case 3: shaped_dyn<U>(form, mk_pv(in), f, t, out, after); return 2;
    case 4: shaped_dyn<U>(form, mk_v(in), f, t, out, after); return 3;
    case 5: shaped_dyn<U>(form, mk_s(in), f, t, out, after); return 6;
    case 6: shaped_dyn<U>(form, mk_d(in), f, t, out, after); return 9;
    default: return -1;
  }
}

template <class U> static int related(int unit_index) { const std::optional<UnitSystem> r = RelatedUnitSystem(Decl<U>::e[unit_index]); return r.has_value() ? (int)r.value() : -1; }
template <class U> static int consistent(int system_value) {
  try { return (int)ConsistentUnit<U>(static_cast<UnitSystem>(system_value)); } catch (...) { return -2; }   // -2: the lookup threw (the table misses a declared system)
}
#if VF_NT == 0
#define VF_E(E) UnitSystem::E,
#define VF_N(E) #E,
static constexpr UnitSystem kSystems[] = {VF_ENUMS_UnitSystem(VF_E)};
static constexpr const char* kSystemNames[] = {VF_ENUMS_UnitSystem(VF_N)};
#undef VF_E
#undef VF_N
extern "C" int vf_systems_count() { return (int)(sizeof(kSystems) / sizeof(kSystems[0])); }
extern "C" const char* vf_system_name(int i) { return kSystemNames[i]; }
extern "C" int vf_system_value(int i) { return (int)kSystems[i]; }
#endif

template <class U> static VfUnitType row() {
  static std::vector<int> values;
  values.clear();
  int std_idx = -1;
  for (int i = 0; i < Decl<U>::n; i++) { values.push_back((int)Decl<U>::e[i]); if (Decl<U>::e[i] == Standard<U>) std_idx = i; }
  return VfUnitType{Decl<U>::tname, Decl<U>::n, Decl<U>::names, values.data(), std_idx, &conv<U>, &stat<U>, &conv_container<U>, &related<U>, &consistent<U>};
}
static const std::vector<VfUnitType>& table() {
  static const std::vector<VfUnitType> t = [] {
    std::vector<VfUnitType> v;
#define VF_T(T) v.push_back(row<Unit::T>());
    VF_UNIT_TYPES(VF_T)
#undef VF_T
    return v;
  }();
  return t;
}
extern "C" int VF_SYM(vf_units_count_)() { return (int)table().size(); }
extern "C" const VfUnitType* VF_SYM(vf_units_)(int k) { return &table()[k]; }
