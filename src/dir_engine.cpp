// C10 / C11 at the level of the raw vector types: every construction path of Direction / PlanarDirection and the eight angle
// kernels (vector-vector, vector-direction, direction-vector, direction-direction in two and three dimensions) with their member forms.
#include <PhQ/Angle.hpp>
#include <PhQ/Direction.hpp>
#include <PhQ/PlanarDirection.hpp>
#include <PhQ/PlanarVector.hpp>
#include <PhQ/Vector.hpp>
#include "engine.hpp"

using namespace vf;
using PhQ::Direction; using PhQ::PlanarDirection; using PhQ::PlanarVector; using PhQ::Vector;

static int len_lo(int nt) { return (ntinfo(nt).emin + ntinfo(nt).mant + 2) / 2 + 1; }
static int len_hi(int nt) { return (ntinfo(nt).emax - 3) / 2; }
static Q qnorm(const LD* v, int n) {
  LD m = 0; for (int i = 0; i < n; i++) m = std::max(m, std::fabs(v[i])); if (m == 0) return 0; int e; std::frexp(m, &e);
  Q s = 0; for (int i = 0; i < n; i++) { const Q x = ldexpq((Q)v[i], -e); s += x * x; } return ldexpq(sqrtq(s), e);
}
static std::string cs(const LD* v, int n) { std::string s = "("; for (int i = 0; i < n; i++) { if (i) s += ", "; s += decld(v[i]); } return s + ")"; }
static std::string hs(const LD* v, int n) { std::string s = "("; for (int i = 0; i < n; i++) { if (i) s += ", "; s += hexld(v[i]); } return s + ")"; }

// ---- construction paths ------------------------------------------------------------------------------------
static const char* kPath3[] = {"Direction(x, y, z)", "Direction(std::array)", "Direction(Vector)", "Set(x, y, z)", "Set(std::array)", "Set(Vector)", "Vector::Direction()", "Direction(PlanarDirection) from (x, y)",
                               "Direction(Direction<other precision>)"};
static const char* kPath2[] = {"PlanarDirection(x, y)", "PlanarDirection(std::array)", "PlanarDirection(PlanarVector)", "Set(x, y)", "Set(std::array)", "Set(PlanarVector)", "PlanarVector::PlanarDirection()",
                               "PlanarDirection(Direction) from (x, y, 0)", "PlanarDirection(PlanarDirection<other precision>)"};
template <class T> static void build3(int path, const LD* v, LD* out) {
  const T x = (T)v[0], y = (T)v[1], z = (T)v[2];
  Direction<T> d((T)3, (T)-2, (T)6);   // Set and assignment act on an object that already holds a direction
  switch (path) {
    case 0: d = Direction<T>(x, y, z); break;
    case 1: d = Direction<T>(std::array<T, 3>{x, y, z}); break;
    case 2: d = Direction<T>(Vector<T>(x, y, z)); break;
    case 3: d.Set(x, y, z); break;
    case 4: d.Set(std::array<T, 3>{x, y, z}); break;
    case 5: d.Set(Vector<T>(x, y, z)); break;
    case 6: d = Vector<T>(x, y, z).Direction(); break;
    case 7: d = Direction<T>(PlanarDirection<T>(x, y)); break;
    default: { using T2 = std::conditional_t<std::is_same_v<T, double>, long double, double>; d = Direction<T>(Direction<T2>((T2)x, (T2)y, (T2)z)); } break;
  }
  out[0] = d.x(); out[1] = d.y(); out[2] = d.z();
}
template <class T> static void build2(int path, const LD* v, LD* out) {
  const T x = (T)v[0], y = (T)v[1];
  PlanarDirection<T> d((T)3, (T)-4);
  switch (path) {
    case 0: d = PlanarDirection<T>(x, y); break;
    case 1: d = PlanarDirection<T>(std::array<T, 2>{x, y}); break;
    case 2: d = PlanarDirection<T>(PlanarVector<T>(x, y)); break;
    case 3: d.Set(x, y); break;
    case 4: d.Set(std::array<T, 2>{x, y}); break;
    case 5: d.Set(PlanarVector<T>(x, y)); break;
    case 6: d = PlanarVector<T>(x, y).PlanarDirection(); break;
    case 7: d = PlanarDirection<T>(Direction<T>(x, y, (T)0)); break;
    default: { using T2 = std::conditional_t<std::is_same_v<T, double>, long double, double>; d = PlanarDirection<T>(PlanarDirection<T2>((T2)x, (T2)y)); } break;
  }
  out[0] = d.x(); out[1] = d.y();
}
static void build(int nt, int n, int path, const LD* v, LD* out) {
  if (n == 3) { if (nt == 0) build3<float>(path, v, out); else if (nt == 1) build3<double>(path, v, out); else build3<long double>(path, v, out); }
  else { if (nt == 0) build2<float>(path, v, out); else if (nt == 1) build2<double>(path, v, out); else build2<long double>(path, v, out); }
}
static Verdict c10_paths(const Case& c) {
  const int nt = (int)c.i[0], n = (int)c.i[1], path = (int)c.i[2], k = (int)c.i[3];
  LD v[3] = {0, 0, 0}; for (int i = 0; i < n; i++) v[i] = c.r[(size_t)i];
  const char* pn = n == 3 ? kPath3[path] : kPath2[path];
  if (path == 7 && n == 3) v[2] = 0;
  LD d[3] = {0, 0, 0}; build(nt, n, path, v, d);
  bool zero = true; for (int i = 0; i < n; i++) if (v[i] != 0) zero = false;
  if (zero) { for (int i = 0; i < n; i++) if (d[i] != 0 || std::signbit(d[i])) return Verdict::fail(fmt("%s [%s] of the zero vector: component %d is %s, expected exactly +0", pn, ntinfo(nt).name, i, hexld(d[i]).c_str())); Verdict V; V.cls = "zero-vector"; V.nontrivial = true; return V; }
  const Q len = qnorm(v, n), dl = qnorm(d, n);
  const double tol_len = path == 8 ? 4.0 : 4.0;
  const double el = (double)(fabsq(dl - 1) / (Q)eps_of(nt));
  if (!(el <= tol_len)) return Verdict::fail(fmt("%s [%s] of %s has length 1 %+.3g ulp (allowed 4): %s", pn, ntinfo(nt).name, cs(v, n).c_str(), (double)((dl - 1) / (Q)eps_of(nt)), cs(d, n).c_str()));
  for (int i = 0; i < n; i++) {
    const Q want = (Q)v[i] / len;
    if (want == 0) { if (d[i] != 0) return Verdict::fail(fmt("%s [%s] of %s: component %d should vanish, is %s", pn, ntinfo(nt).name, cs(v, n).c_str(), i, hexld(d[i]).c_str())); continue; }
    if (fabsq(want) < ldexpq(1, ntinfo(nt).emin + 2)) continue;
    // the converting copy is first normalised in the other precision: its components are good to the coarser of the two precisions (C16)
    const int cnt = path == 8 ? (nt == 2 ? 1 : nt) : nt;
    const double e = err_ulps(cnt, d[i], want, want);
    if (!(e <= 4.0)) return Verdict::fail(fmt("%s [%s] of %s: component %d is %s, v_i/|v| = %s (%.3g ulp, allowed 4)", pn, ntinfo(nt).name, cs(v, n).c_str(), i, decld(d[i]).c_str(), qstr(want).c_str(), e));
  }
  int e0; std::frexp((LD)len, &e0);
  if (path != 8 && e0 + k > len_lo(nt) + 1 && e0 + k < len_hi(nt) - 1) {
    LD w[3], d2[3] = {0, 0, 0}; for (int i = 0; i < 3; i++) w[i] = std::ldexp(v[i], k);
    build(nt, n, path, w, d2);
    for (int i = 0; i < n; i++) if (!same_bits(nt, d2[i], d[i]) && !(d2[i] == 0 && d[i] == 0)) return Verdict::fail(fmt("%s [%s]: scaling %s by 2^%d changes component %d from %s to %s", pn, ntinfo(nt).name, hs(v, n).c_str(), k, i, hexld(d[i]).c_str(), hexld(d2[i]).c_str()));
  }
  Verdict V; V.cls = std::string(ntinfo(nt).name) + ";" + pn; int nz = 0; for (int i = 0; i < n; i++) if (v[i] != 0) nz++; V.nontrivial = nz >= 2;
  V.show = fmt("%s [%s] %s -> %s", pn, ntinfo(nt).name, cs(v, n).c_str(), cs(d, n).c_str());
  return V;
}
// cross product of two directions is a direction (unit length, perpendicular to both, right-handed); Direction x Direction in 2-D gives +-z
template <class T> static void cross_lib(int n, const LD* a, const LD* b, LD* sa, LD* sb, LD* out) {
  if (n == 3) { const Direction<T> x((T)a[0], (T)a[1], (T)a[2]), y((T)b[0], (T)b[1], (T)b[2]); const Direction<T> r = x.Cross(y); sa[0] = x.x(); sa[1] = x.y(); sa[2] = x.z(); sb[0] = y.x(); sb[1] = y.y(); sb[2] = y.z(); out[0] = r.x(); out[1] = r.y(); out[2] = r.z(); }
  else { const PlanarDirection<T> x((T)a[0], (T)a[1]), y((T)b[0], (T)b[1]); const Direction<T> r = x.Cross(y); sa[0] = x.x(); sa[1] = x.y(); sa[2] = 0; sb[0] = y.x(); sb[1] = y.y(); sb[2] = 0; out[0] = r.x(); out[1] = r.y(); out[2] = r.z(); }
}
static Verdict c10_cross(const Case& c) {
  const int nt = (int)c.i[0], n = (int)c.i[1];
  LD sa[3], sb[3], r[3];
  if (nt == 0) cross_lib<float>(n, c.r.data(), c.r.data() + 3, sa, sb, r); else if (nt == 1) cross_lib<double>(n, c.r.data(), c.r.data() + 3, sa, sb, r); else cross_lib<long double>(n, c.r.data(), c.r.data() + 3, sa, sb, r);
  Q cx[3] = {(Q)sa[1] * sb[2] - (Q)sa[2] * sb[1], (Q)sa[2] * sb[0] - (Q)sa[0] * sb[2], (Q)sa[0] * sb[1] - (Q)sa[1] * sb[0]};
  const Q cl = sqrtq(cx[0] * cx[0] + cx[1] * cx[1] + cx[2] * cx[2]);
  Verdict V; V.cls = std::string(ntinfo(nt).name) + (n == 3 ? ";3d" : ";2d");
  if (cl < ldexpq(1, -ntinfo(nt).mant / 2)) { V.cls += ";nearly-parallel-not-checked"; return V; }   // cancellation: the cross product of nearly parallel directions is ill-conditioned
  const Q rl = qnorm(r, 3);
  if (!((double)(fabsq(rl - 1) / (Q)eps_of(nt)) <= 4.0)) return Verdict::fail(fmt("%s.Cross [%s] of %s and %s has length 1 %+.3g ulp", n == 3 ? "Direction" : "PlanarDirection", ntinfo(nt).name, cs(sa, 3).c_str(), cs(sb, 3).c_str(), (double)((rl - 1) / (Q)eps_of(nt))));
  for (int i = 0; i < 3; i++) {
    const Q want = cx[i] / cl;
    const double e = (double)(fabsq((Q)r[i] - want) / ((Q)eps_of(nt) / cl));   // conditioning 1/|a x b|
    if (!(e <= 8.0)) return Verdict::fail(fmt("%s.Cross [%s] of %s and %s: component %d is %s, (a x b)_i/|a x b| = %s", n == 3 ? "Direction" : "PlanarDirection", ntinfo(nt).name, cs(sa, 3).c_str(), cs(sb, 3).c_str(), i, decld(r[i]).c_str(), qstr(want).c_str()));
  }
  V.nontrivial = true; return V;
}

// ---- angle kernels -------------------------------------------------------------------------------------------
// kernel: 0 (V,V) 1 (V,D) 2 (D,V) 3 (D,D) 4 (PV,PV) 5 (PV,PD) 6 (PD,PV) 7 (PD,PD); form 0: Angle constructor, 1: member a.Angle(b)
static const char* kKernel[] = {"Angle(Vector, Vector)", "Angle(Vector, Direction)", "Angle(Direction, Vector)", "Angle(Direction, Direction)", "Angle(PlanarVector, PlanarVector)", "Angle(PlanarVector, PlanarDirection)",
                                "Angle(PlanarDirection, PlanarVector)", "Angle(PlanarDirection, PlanarDirection)"};
// conv: direction operands are obtained through the converting constructor from a direction of a narrower numeric type (float), as in
// Direction<double> d{Direction<float>{...}} - the statement of C16 says that constructor re-normalises, so d is a unit vector of its own type
template <class T> static Direction<T> mkdir3(const LD* v, bool conv) { if (conv) { const Direction<float> n((float)v[0], (float)v[1], (float)v[2]); return Direction<T>(n); } return Direction<T>((T)v[0], (T)v[1], (T)v[2]); }
template <class T> static PlanarDirection<T> mkdir2(const LD* v, bool conv) { if (conv) { const PlanarDirection<float> n((float)v[0], (float)v[1]); return PlanarDirection<T>(n); } return PlanarDirection<T>((T)v[0], (T)v[1]); }
template <class T> static LD angle_lib(int kernel, int form, const LD* a, const LD* b, LD* sa, LD* sb, bool conv = false) {
  auto f3 = [](const auto& x, LD* o) { o[0] = x.x(); o[1] = x.y(); o[2] = x.z(); };
  auto f2 = [](const auto& x, LD* o) { o[0] = x.x(); o[1] = x.y(); o[2] = 0; };
  switch (kernel) {
    case 0: { const Vector<T> x((T)a[0], (T)a[1], (T)a[2]), y((T)b[0], (T)b[1], (T)b[2]); f3(x, sa); f3(y, sb); return form ? x.Angle(y).Value() : PhQ::Angle<T>(x, y).Value(); }
    case 1: { const Vector<T> x((T)a[0], (T)a[1], (T)a[2]); const Direction<T> y = mkdir3<T>(b, conv); f3(x, sa); f3(y, sb); return form ? x.Angle(y).Value() : PhQ::Angle<T>(x, y).Value(); }
    case 2: { const Direction<T> x = mkdir3<T>(a, conv); const Vector<T> y((T)b[0], (T)b[1], (T)b[2]); f3(x, sa); f3(y, sb); return form ? x.Angle(y).Value() : PhQ::Angle<T>(x, y).Value(); }
    case 3: { const Direction<T> x = mkdir3<T>(a, conv), y = mkdir3<T>(b, conv); f3(x, sa); f3(y, sb); return form ? x.Angle(y).Value() : PhQ::Angle<T>(x, y).Value(); }
    case 4: { const PlanarVector<T> x((T)a[0], (T)a[1]), y((T)b[0], (T)b[1]); f2(x, sa); f2(y, sb); return form ? x.Angle(y).Value() : PhQ::Angle<T>(x, y).Value(); }
    case 5: { const PlanarVector<T> x((T)a[0], (T)a[1]); const PlanarDirection<T> y = mkdir2<T>(b, conv); f2(x, sa); f2(y, sb); return form ? x.Angle(y).Value() : PhQ::Angle<T>(x, y).Value(); }
    case 6: { const PlanarDirection<T> x = mkdir2<T>(a, conv); const PlanarVector<T> y((T)b[0], (T)b[1]); f2(x, sa); f2(y, sb); return form ? x.Angle(y).Value() : PhQ::Angle<T>(x, y).Value(); }
    default: { const PlanarDirection<T> x = mkdir2<T>(a, conv), y = mkdir2<T>(b, conv); f2(x, sa); f2(y, sb); return form ? x.Angle(y).Value() : PhQ::Angle<T>(x, y).Value(); }
  }
}
static LD angle(int nt, int kernel, int form, const LD* a, const LD* b, LD* sa, LD* sb, bool conv = false) {
  return nt == 0 ? angle_lib<float>(kernel, form, a, b, sa, sb, conv) : nt == 1 ? angle_lib<double>(kernel, form, a, b, sa, sb, conv) : angle_lib<long double>(kernel, form, a, b, sa, sb, conv);
}
static Q angle_ref(const LD* a, const LD* b) {
  Q x[3], y[3]; for (int i = 0; i < 3; i++) { x[i] = a[i]; y[i] = b[i]; }
  auto unit = [](Q* v) { Q m = 0; for (int i = 0; i < 3; i++) if (fabsq(v[i]) > m) m = fabsq(v[i]); if (m == 0) return; int e; frexpq(m, &e); for (int i = 0; i < 3; i++) v[i] = ldexpq(v[i], -e); };
  unit(x); unit(y);
  const Q cx = x[1] * y[2] - x[2] * y[1], cy = x[2] * y[0] - x[0] * y[2], cz = x[0] * y[1] - x[1] * y[0];
  return atan2q(sqrtq(cx * cx + cy * cy + cz * cz), x[0] * y[0] + x[1] * y[1] + x[2] * y[2]);
}
static Verdict c11_kernel(const Case& c) {
  const int nt = (int)c.i[0], kernel = (int)c.i[1], form = (int)c.i[2], k1 = (int)c.i[3], k2 = (int)c.i[4];
  const int n = kernel < 4 ? 3 : 2;
  LD a[3] = {0, 0, 0}, b[3] = {0, 0, 0}; for (int i = 0; i < n; i++) { a[i] = c.r[(size_t)i]; b[i] = c.r[(size_t)(3 + i)]; }
  bool za = true, zb = true; for (int i = 0; i < n; i++) { if (a[i] != 0) za = false; if (b[i] != 0) zb = false; } if (za || zb) return Verdict::skip("zero-vector");
  LD sa[3], sb[3];
  const LD th = angle(nt, kernel, form, a, b, sa, sb);
  const std::string nm = std::string(kKernel[kernel]) + (form ? " as member a.Angle(b)" : "");
  const std::string args = cs(sa, n) + ", " + cs(sb, n);
  const Q pi = strtoflt128("3.14159265358979323846264338327950288", nullptr);
  if (std::isnan(th)) return Verdict::fail(fmt("%s [%s] is NaN for %s", nm.c_str(), ntinfo(nt).name, args.c_str()));
  if (th < 0 || (Q)th > pi + (Q)ulp_at(nt, 3)) return Verdict::fail(fmt("%s [%s] = %s is outside [0, pi] for %s", nm.c_str(), ntinfo(nt).name, decld(th).c_str(), args.c_str()));
  const Q ref = angle_ref(sa, sb), tol = 6 * sqrtq((Q)eps_of(nt));
  if (!(fabsq((Q)th - ref) <= tol)) return Verdict::fail(fmt("%s [%s] = %s but atan2(|a x b|, a.b) = %s (allowed 6 sqrt(eps) = %s) for %s", nm.c_str(), ntinfo(nt).name, decld(th).c_str(), qstr(ref).c_str(), qstr(tol).c_str(), args.c_str()));
  // direction operands that come out of the converting constructor from a float direction (inputs inside the range of float)
  if (nt > 0 && kernel != 0 && kernel != 4) {
    bool ok = true; for (int i = 0; i < n; i++) for (const LD* v : {a, b}) if (v[i] != 0 && (std::fabs(v[i]) > std::ldexp((LD)1, 60) || std::fabs(v[i]) < std::ldexp((LD)1, -60))) ok = false;
    const bool da = kernel == 2 || kernel == 3 || kernel == 6 || kernel == 7, db = kernel == 1 || kernel == 3 || kernel == 5 || kernel == 7;
    bool fz = false; { float m = 0; if (da) { for (int i = 0; i < n; i++) m = std::max(m, std::fabs((float)a[i])); if (m == 0) fz = true; } m = 0; if (db) { for (int i = 0; i < n; i++) m = std::max(m, std::fabs((float)b[i])); if (m == 0) fz = true; } }
    if (ok && !fz) {
      LD ca[3], cb[3]; const LD thc = angle(nt, kernel, form, a, b, ca, cb, true);
      if (std::isnan(thc)) return Verdict::fail(fmt("%s [%s] is NaN for directions converted from float: %s, %s", nm.c_str(), ntinfo(nt).name, cs(ca, n).c_str(), cs(cb, n).c_str()));
      const Q refc = angle_ref(ca, cb);
      if (!(fabsq((Q)thc - refc) <= tol)) return Verdict::fail(fmt("%s [%s] = %s but atan2(|a x b|, a.b) = %s (allowed 6 sqrt(eps) = %s) for %s, %s - direction operands obtained by the converting constructor from Direction<float>", nm.c_str(),
                                                                   ntinfo(nt).name, decld(thc).c_str(), qstr(refc).c_str(), qstr(tol).c_str(), cs(ca, n).c_str(), cs(cb, n).c_str()));
    }
  }
  // symmetry: same-kind kernels bit for bit; mixed kernels against their mirror kernel within 4 ulp(pi)
  {
    static const int mirror[8] = {0, 2, 1, 3, 4, 6, 5, 7};
    LD t1[3], t2[3]; const LD th2 = angle(nt, mirror[kernel], form, b, a, t1, t2);
    if (mirror[kernel] == kernel) { if (!same_bits(nt, th2, th)) return Verdict::fail(fmt("%s [%s] is not symmetric: %s vs %s for %s", nm.c_str(), ntinfo(nt).name, hexld(th).c_str(), hexld(th2).c_str(), args.c_str())); }
    else if (std::fabs(th2 - th) > 4 * ulp_at(nt, 3)) return Verdict::fail(fmt("%s [%s] = %s but the mirrored %s = %s for %s", nm.c_str(), ntinfo(nt).name, hexld(th).c_str(), kKernel[mirror[kernel]], hexld(th2).c_str(), args.c_str()));
  }
  // member form equals constructor form
  { LD t1[3], t2[3]; const LD th3 = angle(nt, kernel, 1 - form, a, b, t1, t2); if (!same_bits(nt, th3, th)) return Verdict::fail(fmt("%s [%s]: constructor and member forms differ: %s vs %s", kKernel[kernel], ntinfo(nt).name, hexld(th).c_str(), hexld(th3).c_str())); }
  // independent of the lengths (power-of-two factors: exactly) - vector arguments only
  {
    const bool va = kernel == 0 || kernel == 1 || kernel == 4 || kernel == 5, vb = kernel == 0 || kernel == 2 || kernel == 4 || kernel == 6;
    LD a2[3], b2[3]; bool ok = true;
    for (int i = 0; i < 3; i++) { a2[i] = va ? std::ldexp(a[i], k1) : a[i]; b2[i] = vb ? std::ldexp(b[i], k2) : b[i]; }
    auto inrange = [&](const LD* v) { int e0; std::frexp((LD)qnorm(v, n), &e0); if (e0 < len_lo(nt) + 2 || e0 > len_hi(nt) - 2) return false; for (int i = 0; i < n; i++) if (v[i] != 0 && std::fabs(v[i]) < std::ldexp((LD)1, len_lo(nt))) return false; return true; };
    if (va) ok = ok && inrange(a2) && inrange(a); if (vb) ok = ok && inrange(b2) && inrange(b);
    if (ok && (va || vb)) { LD t1[3], t2[3]; const LD th4 = angle(nt, kernel, form, a2, b2, t1, t2); if (!same_bits(nt, th4, th)) return Verdict::fail(fmt("%s [%s] depends on the lengths: %s, but %s after scaling by 2^%d / 2^%d (%s)", nm.c_str(), ntinfo(nt).name, hexld(th).c_str(), hexld(th4).c_str(), k1, k2, args.c_str())); }
  }
  Verdict V; const Q cosv = cosq(ref); const bool near = fabsq(cosv) > 1 - ldexpq(1, 10) * (Q)eps_of(nt);
  V.cls = std::string(ntinfo(nt).name) + ";" + kKernel[kernel] + (near ? (cosv > 0 ? ";nearly-parallel" : ";nearly-antiparallel") : ";generic"); V.nontrivial = near;
  V.show = fmt("%s [%s] %s -> %s", nm.c_str(), ntinfo(nt).name, args.c_str(), decld(th).c_str());
  return V;
}
static rc::Gen<std::vector<LD>> gen_vec(int nt, int n, int margin) {
  return rc::gen::map(rc::gen::tuple(gen_reals(3, nt, -1, 1, kNeg), irange(len_lo(nt) + margin, len_hi(nt) - margin), irange(0, 9), irange(0, n - 1), irange(1, 40)),
                      [=](const std::tuple<std::vector<LD>, int, int, int, int>& t) {
                        std::vector<LD> v = std::get<0>(t); const int k = std::get<1>(t), mode = std::get<2>(t), ax = std::get<3>(t), deg = std::get<4>(t);
                        if (n == 2) v[2] = 0;
                        if (mode == 0) { for (int i = 0; i < n; i++) if (i != ax) v[(size_t)i] = 0; } else if (mode == 1 && n == 3) v[(size_t)ax] = 0; else if (mode == 2) v[(size_t)ax] = std::ldexp(v[(size_t)ax], -deg);
                        else if (mode == 4) v[(size_t)ax] = std::signbit(v[(size_t)ax]) ? -(LD)0 : (LD)0;
                        else if (mode == 5 || mode == 6) {
                          // a vector that is *nearly* of unit length, |v| = 1 + 2^-j (or 1 - 2^-j), at absolute scale one: "already normalised" shortcuts live here
                          LD len = 0; for (int i = 0; i < n; i++) len += v[(size_t)i] * v[(size_t)i]; len = std::sqrt(len);
                          if (len > 0) { const LD f = 1 + (mode == 5 ? 1 : -1) * std::ldexp((LD)1, -(8 + deg)); for (int i = 0; i < n; i++) v[(size_t)i] = round_to(nt, v[(size_t)i] / len * f); return v; }
                        }
                        for (auto& x : v) x = std::ldexp(x, k);
                        return v;
                      });
}
static rc::Gen<std::vector<LD>> gen_pair(int nt, int n) {
  return rc::gen::map(rc::gen::tuple(gen_vec(nt, n, 12), gen_vec(nt, n, 12), irange(0, 9), gen_real(nt, -6, 6, 0), irange(1, 60), irange(-8, 8)),
                      [=](const std::tuple<std::vector<LD>, std::vector<LD>, int, LD, int, int>& t) {
                        std::vector<LD> a = std::get<0>(t), b = std::get<1>(t); const int mode = std::get<2>(t); const LD kf = std::get<3>(t); const int eps = std::get<4>(t), kp = std::get<5>(t);
                        auto perp = [&]() { std::vector<LD> p(3, 0); if (n == 2) { p[0] = -a[1]; p[1] = a[0]; } else { int m = 0; for (int i = 1; i < 3; i++) if (std::fabs(a[(size_t)i]) < std::fabs(a[(size_t)m])) m = i; const int i1 = (m + 1) % 3, i2 = (m + 2) % 3; p[(size_t)i1] = -a[(size_t)i2]; p[(size_t)i2] = a[(size_t)i1]; } return p; };
                        if (mode <= 1) { for (int i = 0; i < 3; i++) b[(size_t)i] = round_to(nt, a[(size_t)i] * (mode == 0 ? kf : -kf)); }
                        else if (mode <= 3) { for (int i = 0; i < 3; i++) b[(size_t)i] = std::ldexp(mode == 2 ? a[(size_t)i] : -a[(size_t)i], kp); }
                        else if (mode <= 6) { auto p = perp(); for (int i = 0; i < 3; i++) b[(size_t)i] = round_to(nt, (mode == 6 ? -1 : 1) * a[(size_t)i] * kf + std::ldexp(p[(size_t)i], -eps)); }
                        else if (mode == 7) b = perp();
                        std::vector<LD> v = a; v.insert(v.end(), b.begin(), b.end()); return v;
                      });
}

// ---- products that involve directions: every overload must equal the same product taken with the direction's stored components --------
// (they are thin forwarding overloads - exactly the kind of site where a copy-paste slip survives; C09 for the algebra, C10 for "magnitude x direction")
#include <PhQ/Dyad.hpp>
#include <PhQ/SymmetricDyad.hpp>
template <class T> static std::string dirprod(int n, int which, const LD* a, const LD* b, const LD* t9, LD mag) {
  using PhQ::Dyad; using PhQ::SymmetricDyad;
  auto same = [&](const char* what, const LD* got, const LD* want, int k) -> std::string {
    for (int i = 0; i < k; i++) { const LD g = got[i], w = (LD)(T)want[i]; if (std::memcmp(&g, &w, 10) != 0 && !(g == 0 && w == 0)) return fmt("%s: component %d is %s, the same product on the stored components gives %s", what, i, hexld(g).c_str(), hexld(w).c_str()); }
    return ""; };
  auto f3 = [](const Vector<T>& v, LD* o) { o[0] = v.x(); o[1] = v.y(); o[2] = v.z(); };
  auto f9 = [](const Dyad<T>& v, LD* o) { o[0] = v.xx(); o[1] = v.xy(); o[2] = v.xz(); o[3] = v.yx(); o[4] = v.yy(); o[5] = v.yz(); o[6] = v.zx(); o[7] = v.zy(); o[8] = v.zz(); };
  LD g[9], w[9];
  const Dyad<T> D((T)t9[0], (T)t9[1], (T)t9[2], (T)t9[3], (T)t9[4], (T)t9[5], (T)t9[6], (T)t9[7], (T)t9[8]);
  const SymmetricDyad<T> S((T)t9[0], (T)t9[1], (T)t9[2], (T)t9[4], (T)t9[5], (T)t9[8]);
  if (n == 3) {
    const Direction<T> d((T)a[0], (T)a[1], (T)a[2]), e((T)b[0], (T)b[1], (T)b[2]); const Vector<T> v((T)b[0], (T)b[1], (T)b[2]); const Vector<T> dv = d.Value(), ev = e.Value();
    switch (which) {
      case 0: g[0] = d.Dot(v); w[0] = dv.Dot(v); return same("Direction.Dot(Vector)", g, w, 1);
      case 1: g[0] = v.Dot(d); w[0] = v.Dot(dv); return same("Vector.Dot(Direction)", g, w, 1);
      case 2: g[0] = d.Dot(e); w[0] = dv.Dot(ev); return same("Direction.Dot(Direction)", g, w, 1);
      case 3: f3(d.Cross(v), g); f3(dv.Cross(v), w); return same("Direction.Cross(Vector)", g, w, 3);
      case 4: f3(v.Cross(d), g); f3(v.Cross(dv), w); return same("Vector.Cross(Direction)", g, w, 3);
      case 5: f9(d.Dyadic(v), g); f9(dv.Dyadic(v), w); return same("Direction.Dyadic(Vector)", g, w, 9);
      case 6: f9(v.Dyadic(d), g); f9(v.Dyadic(dv), w); return same("Vector.Dyadic(Direction)", g, w, 9);
      case 7: f9(d.Dyadic(e), g); f9(dv.Dyadic(ev), w); return same("Direction.Dyadic(Direction)", g, w, 9);
      case 8: f3(S * d, g); f3(S * dv, w); return same("SymmetricDyad * Direction", g, w, 3);
      case 9: f3(D * d, g); f3(D * dv, w); return same("Dyad * Direction", g, w, 3);
      case 10: f3(Vector<T>((T)mag, d), g); f3(dv * (T)mag, w); return same("Vector(magnitude, Direction)", g, w, 3);
      case 11: g[0] = d.MagnitudeSquared(); w[0] = dv.MagnitudeSquared(); g[1] = d.Magnitude(); w[1] = dv.Magnitude(); return same("Direction.MagnitudeSquared()/Magnitude()", g, w, 2);
      default: return "";
    }
  }
  const PlanarDirection<T> d((T)a[0], (T)a[1]), e((T)b[0], (T)b[1]); const PlanarVector<T> v((T)b[0], (T)b[1]); const PlanarVector<T> dv = d.Value(), ev = e.Value();
  switch (which) {
    case 0: g[0] = d.Dot(v); w[0] = dv.Dot(v); return same("PlanarDirection.Dot(PlanarVector)", g, w, 1);
    case 1: g[0] = v.Dot(d); w[0] = v.Dot(dv); return same("PlanarVector.Dot(PlanarDirection)", g, w, 1);
    case 2: g[0] = d.Dot(e); w[0] = dv.Dot(ev); return same("PlanarDirection.Dot(PlanarDirection)", g, w, 1);
    case 3: f3(d.Cross(v), g); f3(dv.Cross(v), w); return same("PlanarDirection.Cross(PlanarVector)", g, w, 3);
    case 4: f3(v.Cross(d), g); f3(v.Cross(dv), w); return same("PlanarVector.Cross(PlanarDirection)", g, w, 3);
    case 5: f9(d.Dyadic(v), g); f9(dv.Dyadic(v), w); return same("PlanarDirection.Dyadic(PlanarVector)", g, w, 9);
    case 6: f9(v.Dyadic(d), g); f9(v.Dyadic(dv), w); return same("PlanarVector.Dyadic(PlanarDirection)", g, w, 9);
    case 7: f9(d.Dyadic(e), g); f9(dv.Dyadic(ev), w); return same("PlanarDirection.Dyadic(PlanarDirection)", g, w, 9);
    case 8: f3(S * d, g); f3(S * dv, w); return same("SymmetricDyad * PlanarDirection", g, w, 3);
    case 9: f3(D * d, g); f3(D * dv, w); return same("Dyad * PlanarDirection", g, w, 3);
    case 10: { const PlanarVector<T> r((T)mag, d); const PlanarVector<T> q = dv * (T)mag; g[0] = r.x(); g[1] = r.y(); w[0] = q.x(); w[1] = q.y(); return same("PlanarVector(magnitude, PlanarDirection)", g, w, 2); }
    case 11: g[0] = d.MagnitudeSquared(); w[0] = dv.MagnitudeSquared(); g[1] = d.Magnitude(); w[1] = dv.Magnitude(); return same("PlanarDirection.MagnitudeSquared()/Magnitude()", g, w, 2);
    default: return "";
  }
}
static Verdict c09_direction_products(const Case& c) {
  const int nt = (int)c.i[0], n = (int)c.i[1], which = (int)c.i[2];
  const LD* a = &c.r[0]; const LD* b = &c.r[3]; const LD* t9 = &c.r[6]; const LD mag = c.r[15];
  const std::string m = nt == 0 ? dirprod<float>(n, which, a, b, t9, mag) : nt == 1 ? dirprod<double>(n, which, a, b, t9, mag) : dirprod<long double>(n, which, a, b, t9, mag);
  if (!m.empty()) return Verdict::fail(m + " [" + ntinfo(nt).name + "]");
  Verdict V; V.cls = std::string(ntinfo(nt).name) + (n == 3 ? ";3d" : ";2d") + ";overload" + std::to_string(which); V.nontrivial = true; return V;
}

// C05: the embedding of a planar direction into three dimensions and back is lossless
template <class T> static std::string embed_dir(const LD* v) {
  const PlanarDirection<T> p((T)v[0], (T)v[1]);
  const Direction<T> d(p);
  const PlanarDirection<T> back(d);
  if (d.z() != 0) return fmt("Direction(PlanarDirection(%s, %s)) has z = %s", decld(v[0]).c_str(), decld(v[1]).c_str(), hexld(d.z()).c_str());
  const LD a[2] = {p.x(), p.y()}, b[2] = {back.x(), back.y()}, c[2] = {d.x(), d.y()};
  // both conversions re-normalise, so the round trip is not bit-exact; the statement asks for "a few ulps"
  const int nt = std::is_same_v<T, float> ? 0 : std::is_same_v<T, double> ? 1 : 2;
  for (int i = 0; i < 2; i++) {
    const double e1 = err_ulps(nt, c[i], (Q)a[i], (Q)1), e2 = err_ulps(nt, b[i], (Q)a[i], (Q)1);
    if (!(e1 <= 2.0)) return fmt("Direction(PlanarDirection) moves component %d from %s to %s (%.2f ulp, allowed 2)", i, hexld(a[i]).c_str(), hexld(c[i]).c_str(), e1);
    if (!(e2 <= 3.0)) return fmt("PlanarDirection(Direction(PlanarDirection(%s, %s))) returns component %d = %s instead of %s (%.2f ulp, allowed 3)", decld(v[0]).c_str(), decld(v[1]).c_str(), i, hexld(b[i]).c_str(), hexld(a[i]).c_str(), e2);
  }
  return "";
}
static Verdict c05_direction_embedding(const Case& c) {
  const int nt = (int)c.i[0];
  const std::string m = nt == 0 ? embed_dir<float>(c.r.data()) : nt == 1 ? embed_dir<double>(c.r.data()) : embed_dir<long double>(c.r.data());
  if (!m.empty()) return Verdict::fail(m + " [" + ntinfo(nt).name + "]");
  Verdict V; V.cls = ntinfo(nt).name; V.nontrivial = c.r[0] != 0 && c.r[1] != 0; return V;
}

int main(int argc, char** argv) {
  std::vector<Sub> subs;
  {
    Sub s; s.name = "c09.direction_products"; s.property = "C09"; s.instances = 3 * 2 * 12; s.n_quick = 300; s.n_thorough = 10000; s.run = c09_direction_products;
    s.gen = [](int inst) { const int which = inst % 12, n = 2 + (inst / 12) % 2, nt = inst / 24;
      return rc::gen::map(gen_reals(16, nt, -8, 8, kNeg), [=](const std::vector<LD>& v) { Case c; c.i = {nt, n, which}; c.r = v; return c; }); };
    s.rule = "the 12 x 2 product overloads that take a Direction / PlanarDirection (Dot, Cross, Dyadic in both operand orders, tensor * direction, Vector(magnitude, direction), MagnitudeSquared / Magnitude) x 3 numeric types: "
             "bit-equal to the same product taken with the direction's stored vector";
    subs.push_back(s);
  }
  {
    Sub s; s.name = "c05.direction_embedding"; s.property = "C05"; s.instances = 3; s.n_quick = 5000; s.n_thorough = 300000; s.run = c05_direction_embedding;
    s.gen = [](int nt) { return rc::gen::map(gen_vec(nt, 2, 2), [=](const std::vector<LD>& v) { Case c; c.i = {nt}; c.r = {v[0], v[1]}; return c; }); };
    s.rule = "PlanarDirection -> Direction -> PlanarDirection returns the original within 3 ulp per component (both conversions re-normalise), z = 0 exactly; non-trivial: both components non-zero";
    subs.push_back(s);
  }
  {
    Sub s; s.name = "c10.paths"; s.property = "C10"; s.instances = 3 * 2 * 9; s.n_quick = 3000; s.n_thorough = 60000; s.run = c10_paths;
    s.gen = [](int inst) { const int path = inst % 9, n = 2 + (inst / 9) % 2, nt = inst / 18;
      // the converting copy goes through another precision (double <-> long double, float -> double): stay inside the range of both (out-of-range narrowing is UB)
      const int gnt = path == 8 ? (nt == 2 ? 1 : nt) : nt;
      return rc::gen::map(rc::gen::tuple(gen_vec(gnt, n, 2), irange(-30, 30), irange(0, 19)), [=](const std::tuple<std::vector<LD>, int, int>& t) { Case c; c.i = {nt, n, path, std::get<1>(t)}; c.r = std::get<0>(t); if (std::get<2>(t) == 0) for (auto& x : c.r) x = 0; return c; }); };
    s.instance_name = [](int inst) { return std::string((2 + (inst / 9) % 2) == 3 ? kPath3[inst % 9] : kPath2[inst % 9]) + "/" + ntinfo(inst / 18).name; };
    s.rule = "every construction path of Direction and PlanarDirection (components, std::array, vector, three Set overloads, Vector::Direction(), 2-D <-> 3-D conversion, converting copy) x 3 numeric types; vectors = random orientation x "
             "length over the range in which the squared length neither overflows nor underflows, axis-aligned, two-axis, near-degenerate, signed-zero components, zero vector; oracle: length 1 within 4 ulp, components within 4 ulp of "
             "v_i/|v| in __float128, bit-identical under power-of-two rescaling, zero -> exactly +0; non-trivial: >= 2 non-zero components";
    subs.push_back(s);
  }
  {
    Sub s; s.name = "c10.cross"; s.property = "C10"; s.instances = 6; s.n_quick = 10000; s.n_thorough = 200000; s.run = c10_cross;
    s.gen = [](int inst) { const int n = 2 + inst % 2, nt = inst / 2; return rc::gen::map(rc::gen::tuple(gen_vec(nt, n, 20), gen_vec(nt, n, 20)), [=](const std::tuple<std::vector<LD>, std::vector<LD>>& t) { Case c; c.i = {nt, n}; c.r = std::get<0>(t); c.r.insert(c.r.end(), std::get<1>(t).begin(), std::get<1>(t).end()); return c; }); };
    s.rule = "the cross product of two directions (3-D) / planar directions (2-D) is a direction: unit length within 4 ulp, parallel to a x b within the conditioning 1/|a x b|; non-trivial: |a x b| > sqrt(eps)";
    subs.push_back(s);
  }
  {
    Sub s; s.name = "c11.kernels"; s.property = "C11"; s.instances = 3 * 8 * 2; s.n_quick = 6000; s.n_thorough = 100000; s.run = c11_kernel;
    s.gen = [](int inst) { const int form = inst % 2, kernel = (inst / 2) % 8, nt = inst / 16; const int n = kernel < 4 ? 3 : 2;
      return rc::gen::map(rc::gen::tuple(gen_pair(nt, n), irange(-40, 40), irange(-40, 40)), [=](const std::tuple<std::vector<LD>, int, int>& t) { Case c; c.i = {nt, kernel, form, std::get<1>(t), std::get<2>(t)}; c.r = std::get<0>(t); return c; }); };
    s.instance_name = [](int inst) { return std::string(kKernel[(inst / 2) % 8]) + (inst % 2 ? "/member" : "/ctor") + "/" + ntinfo(inst / 16).name; };
    s.rule = "the 8 angle kernels (vector/direction x 2-D/3-D) in constructor and member form x 3 numeric types; pairs b = +-k a (arbitrary k and powers of two), b = +-k a + 2^-e a_perp (e = 1..60), perpendicular, independent; oracle: not NaN, "
             "in [0, pi], symmetric (bit for bit for same-kind arguments, 4 ulp across kinds), constructor = member, bit-invariant under power-of-two rescaling of vector arguments, |theta - atan2(|a x b|, a.b)| <= 6 sqrt(eps); "
             "non-trivial: |cos theta| > 1 - 2^10 eps";
    subs.push_back(s);
  }
  return engine_main(argc, argv, subs);
}
