// C03 (dimensional homogeneity), C04 (arithmetic is arithmetic on the stored values), C05 (mutual inverses) over the relation registry.
#include "engine.hpp"
#include "rel_iface.hpp"
#include <algorithm>

using namespace vf;

static std::vector<const VfRelation*> g_rel[3];
static std::vector<const VfCompound*> g_cmp[3];
static std::vector<const VfStdFn*> g_std[3];
static void load() {
#define VF_L(N, C)                                                                            \
  for (int i = 0; i < vf_rel_count_##N##_##C(); i++) g_rel[N].push_back(vf_rel_##N##_##C(i)); \
  for (int i = 0; i < vf_cmp_count_##N##_##C(); i++) g_cmp[N].push_back(vf_cmp_##N##_##C(i)); \
  for (int i = 0; i < vf_std_count_##N##_##C(); i++) g_std[N].push_back(vf_std_##N##_##C(i));
#define VF_LN(N) VF_L(N, 0) VF_L(N, 1) VF_L(N, 2) VF_L(N, 3) VF_L(N, 4) VF_L(N, 5)
  VF_LN(0) VF_LN(1) VF_LN(2)
  for (int n = 0; n < 3; n++) {
    std::sort(g_rel[n].begin(), g_rel[n].end(), [](const VfRelation* a, const VfRelation* b) { return a->kind != b->kind ? a->kind < b->kind : std::strcmp(a->name, b->name) < 0; });
    std::sort(g_cmp[n].begin(), g_cmp[n].end(), [](const VfCompound* a, const VfCompound* b) { return std::strcmp(a->name, b->name) < 0; });
    std::sort(g_std[n].begin(), g_std[n].end(), [](const VfStdFn* a, const VfStdFn* b) { int c = std::strcmp(a->qname, b->qname); return c ? c < 0 : std::strcmp(a->fname, b->fname) < 0; });
  }
}
// flat instance index over (nt, idx)
struct Ref { int nt, idx; };
static std::vector<Ref> g_all;           // all relations
static std::vector<Ref> g_ops;           // kinds 0..3, 7..10

static LD ieee(int nt, int op, LD a, LD b) {
  if (nt == 0) { float x = (float)a, y = (float)b; float r = op == 0 ? x + y : op == 1 ? x - y : op == 2 ? x * y : x / y; return r; }
  if (nt == 1) { double x = (double)a, y = (double)b; double r = op == 0 ? x + y : op == 1 ? x - y : op == 2 ? x * y : x / y; return r; }
  return op == 0 ? a + b : op == 1 ? a - b : op == 2 ? a * b : a / b;
}
static std::string comps(const LD* v, int n) { std::string s = "("; for (int i = 0; i < n; i++) { if (i) s += ", "; s += hexld(v[i]); } return s + ")"; }
static std::string comps_dec(const LD* v, int n) { std::string s = "("; for (int i = 0; i < n; i++) { if (i) s += ", "; s += decld(v[i]); } return s + ")"; }

struct Eval {
  LD in[9][9], st[9][9], out[9];
  const LD* inp[9]; LD* stp[9];
  Eval() { for (int k = 0; k < 9; k++) { inp[k] = in[k]; stp[k] = st[k]; for (int j = 0; j < 9; j++) in[k][j] = st[k][j] = 0; } for (int j = 0; j < 9; j++) out[j] = 0; }
  void run(const VfRelation* R) { R->f(inp, stp, out); }
};
static void load_operands(const VfRelation* R, const Case& c, Eval& E, size_t off = 0) {
  size_t p = off;
  for (int k = 0; k < R->nargs; k++) for (int j = 0; j < R->args[k].ncomp; j++) E.in[k][j] = c.r[p++];
}
static int total_comps(const VfRelation* R) { int n = 0; for (int k = 0; k < R->nargs; k++) n += R->args[k].ncomp; return n; }
static bool finite_all(const LD* v, int n) { for (int i = 0; i < n; i++) if (!std::isfinite(v[i])) return false; return true; }
static std::string show_args(const VfRelation* R, const Eval& E) {
  std::string s;
  for (int k = 0; k < R->nargs; k++) { if (k) s += ", "; s += std::string(R->args[k].name) + comps_dec(E.st[k], R->args[k].ncomp); }
  return s;
}

// ================================================================================================ C03
static int kmax(int nt) { return nt == 0 ? 1 : 4; }
// operand window (binades around 1): as wide as the exponent range allows when every operand (one of them squared) enters a product
static int window(int nt, int nargs, bool full = false) {
  const int S = 2 * kmax(nt) * 7;                       // largest scale exponent of one operand (sum |d| <= 7)
  // long double: `full` uses its own exponent range (2^+-16382); otherwise its operands stay inside the range of double, like the double cases
  const int budget = (nt == 0 ? 120 : (nt == 2 && full) ? 16000 : 1000) / (nargs + 1) - S;
  const int cap = nt == 0 ? 45 : (nt == 2 && full) ? 3200 : 200;
  return budget < 2 ? 2 : budget > cap ? cap : budget;
}
static int scale_exp(const int* d, const long long* k) { int s = 0; for (int q = 0; q < 7; q++) s += 2 * (int)k[q] * d[q]; return s; }

// A relation returned a non-finite value (or an all-zero result) from finite non-zero operands.  Overflow / underflow of the true result is legitimate, a
// threshold or an intermediate that leaves the range is not.  Oracle: dimensional homogeneity (C03) - the same relation is evaluated in base units rescaled
// by powers of four chosen to bring every operand near 1; if that evaluation is finite and, scaled back, lies well inside the normal range of the numeric
// type, the result was representable and the library's inf / NaN / 0 is wrong.  Dimensionless operands cannot be moved, so cancellations (1/(gamma - 1) at
// gamma = 1, cp - cv = 0) reproduce in the rescaled evaluation and are not reported.
static bool representable_in_rescaled_units(const VfRelation* R, const Eval& E, int nt, std::string* what) {
  long long k[7] = {0, 0, 0, 0, 0, 0, 0};
  int ea[9]; bool movable[9];
  for (int a = 0; a < R->nargs; a++) {
    LD m = 0; for (int j = 0; j < R->args[a].ncomp; j++) m = std::max(m, std::fabs(E.in[a][j]));
    if (!(m > 0) || !std::isfinite(m)) return false;
    ea[a] = std::ilogb(m); movable[a] = false; for (int q = 0; q < 7; q++) if (R->args[a].dims[q]) movable[a] = true;
  }
  for (int pass = 0; pass < 6; pass++) for (int q = 0; q < 7; q++) {
    double num = 0, den = 0;
    for (int a = 0; a < R->nargs; a++) { if (!movable[a]) continue; const int d = R->args[a].dims[q]; if (!d) continue; long long rest = ea[a]; for (int qq = 0; qq < 7; qq++) if (qq != q) rest += 2 * k[qq] * R->args[a].dims[qq]; num += (double)rest * d; den += (double)d * d; }
    if (den > 0) k[q] = (long long)std::llround(-num / (2 * den));
  }
  Eval B;
  for (int a = 0; a < R->nargs; a++) {
    const int e = scale_exp(R->args[a].dims, k);
    for (int j = 0; j < R->args[a].ncomp; j++) { const LD v = std::ldexp(E.in[a][j], e); if (v != 0 && (std::fabs(v) < std::ldexp((LD)1, ntinfo(nt).emin + 2) || !std::isfinite(v))) return false; B.in[a][j] = v; }
    if (ea[a] + e > 40 || ea[a] + e < -40) { if (movable[a]) return false; }   // could not bring the operands together: undecided
  }
  B.run(R);
  const int er = scale_exp(R->res.dims, k);
  LD m = 0; for (int j = 0; j < R->res.ncomp; j++) { if (!std::isfinite(B.out[j])) return false; m = std::max(m, std::fabs(B.out[j])); }
  if (!(m > 0)) return false;
  const int pe = std::ilogb(m) - er;
  if (pe > ntinfo(nt).emax - 8 || pe < ntinfo(nt).emin + 8) return false;   // the true result is (nearly) out of range: overflow / underflow is the IEEE answer
  std::string ks; for (int q = 0; q < 7; q++) ks += fmt("%s4^%lld", q ? "," : "", k[q]);
  *what = fmt("with the base units (T,L,M,I,Th,N,J) rescaled by (%s) the same relation returns %s, i.e. about 2^%d in the original units - well inside the range of %s", ks.c_str(), comps_dec(B.out, R->res.ncomp).c_str(), pe, ntinfo(nt).name);
  return true;
}
static bool all_zero(const LD* v, int n) { for (int i = 0; i < n; i++) if (v[i] != 0) return false; return true; }

static Verdict c03_scaling(const Case& c) {
  const int nt = (int)c.i[0]; const VfRelation* R = g_rel[nt][(size_t)c.i[1]];
  const long long* k = &c.i[2];
  if (R->res.kind == 4) return Verdict::skip("raw-math-type-result");
  Eval A, B;
  load_operands(R, c, A); load_operands(R, c, B);
  bool any = false;
  for (int a = 0; a < R->nargs; a++) { const int e = scale_exp(R->args[a].dims, k); if (e) any = true; for (int j = 0; j < R->args[a].ncomp; j++) B.in[a][j] = std::ldexp(A.in[a][j], e); }
  const int er = scale_exp(R->res.dims, k); if (er) any = true;
  A.run(R);
  if (!finite_all(A.out, R->res.ncomp) || all_zero(A.out, R->res.ncomp)) {
    // the unit rescalings of this check are too small to bring a lost range back; a far rescaling that brings every operand near 1 can
    std::string why;
    if (representable_in_rescaled_units(R, A, nt, &why))
      return Verdict::fail(fmt("%s [%s] returns %s for the finite operands %s although the result is representable: %s", R->name, ntinfo(nt).name, comps_dec(A.out, R->res.ncomp).c_str(), show_args(R, A).c_str(), why.c_str()));
    if (!finite_all(A.out, R->res.ncomp)) return Verdict::skip("result-not-finite");
  }
  B.run(R);
  Verdict V; V.cls = std::string(ntinfo(nt).name) + ";kind" + std::to_string(R->kind);
  bool exact = true, nonzero = false;
  for (int j = 0; j < R->res.ncomp; j++) {
    const LD want = std::ldexp(A.out[j], er);
    if (A.out[j] != 0) nonzero = true;
    if (same_bits(nt, B.out[j], want) || (B.out[j] == 0 && want == 0)) continue;
    exact = false;
    // scale for the allowance: the largest component (vector results are computed from all operand components)
    LD mx = 0; for (int q = 0; q < R->res.ncomp; q++) mx = std::max(mx, std::fabs(std::ldexp(A.out[q], er)));
    const bool contraction = R->res.ncomp != 1 || R->nargs > 1;
    double e = err_ulps(nt, B.out[j], (Q)want, (Q)(R->res.ncomp > 1 ? mx : want));
    if (!(e <= 2.0)) {
      std::string ks; for (int q = 0; q < 7; q++) ks += fmt("%s4^%lld", q ? "," : "", k[q]);
      return Verdict::fail(fmt("%s [%s]: rescaling the base units (T,L,M,I,Th,N,J) by (%s) must rescale the result by 2^%d (declared dimensions of %s); component %d: f(scaled operands) = %s, scaled f(operands) = %s (%.3g ulp); operands %s",
                               R->name, ntinfo(nt).name, ks.c_str(), er, R->res.name, j, hexld(B.out[j]).c_str(), hexld(want).c_str(), e, show_args(R, A).c_str()));
    }
    (void)contraction;
  }
  V.cls += exact ? ";exact" : ";within-2ulp";
  V.nontrivial = any && nonzero;
  V.show = fmt("%s [%s] %s -> %s", R->name, ntinfo(nt).name, show_args(R, A).c_str(), comps_dec(A.out, R->res.ncomp).c_str());
  return V;
}
static rc::Gen<Case> gen_c03(int inst) {
  const Ref rf = g_all[(size_t)inst]; const VfRelation* R = g_rel[rf.nt][(size_t)rf.idx];
  const int n = total_comps(R), nt = rf.nt, km = kmax(nt), w = window(nt, R->nargs > 4 ? 1 : R->nargs), wf = window(nt, R->nargs > 4 ? 1 : R->nargs, true);
  // long double: half of the cases use magnitudes beyond the range of double (a relation that silently computes in double overflows there; rescaling by powers
  // of two cannot see the lost precision, only the lost range)
  return rc::gen::map(rc::gen::tuple(rc::gen::container<std::vector<int>>(7, irange(-km, km)), wf == w ? gen_reals(n, nt, -w, w, kNeg) : rc::gen::oneOf(gen_reals(n, nt, -w, w, kNeg), gen_reals(n, nt, -wf, wf, kNeg)), irange(0, 1)),
                      [=](const std::tuple<std::vector<int>, std::vector<LD>, int>& t) {
                        Case c; c.i = {nt, rf.idx}; for (int x : std::get<0>(t)) c.i.push_back(x); c.r = std::get<1>(t);
                        if (std::get<2>(t)) for (auto& x : c.r) x = std::fabs(x);   // half of the cases all-positive (roots, ratios of positive quantities)
                        return c;
                      });
}
static Verdict c03_types(const Case& c) {
  const int nt = (int)c.i[0]; const VfRelation* R = g_rel[nt][(size_t)c.i[1]];
  Verdict V; V.nontrivial = true; V.cls = std::string(ntinfo(nt).name) + ";kind" + std::to_string(R->kind);
  if (R->res.kind == 4 || R->args[0].kind == 4 || R->args[1].kind == 4) return Verdict::skip("raw-math-type");
  const int* a = R->args[0].dims; const int* b = R->args[1].dims; const int* r = R->res.dims;
  auto ds = [](const int* d) { return fmt("[T%d L%d M%d I%d Th%d N%d J%d]", d[0], d[1], d[2], d[3], d[4], d[5], d[6]); };
  for (int q = 0; q < 7; q++) {
    int want;
    switch (R->kind) { case 0: case 1: case 7: case 8: want = a[q]; if (b[q] != a[q]) return Verdict::fail(fmt("%s: operands of a sum/difference have different dimension sets %s vs %s", R->name, ds(a).c_str(), ds(b).c_str())); break;
      case 2: want = a[q] + b[q]; break; case 3: want = a[q] - b[q]; break;
      case 9: case 10: want = a[q]; if (b[q] != 0) return Verdict::fail(fmt("%s: compound scaling by a dimensional operand", R->name)); break;
      default: return Verdict::skip("not-an-operator"); }
    if (r[q] != want) return Verdict::fail(fmt("%s: result type %s declares %s, the operands imply %s%s%s", R->name, R->res.name, ds(r).c_str(), ds(a).c_str(), R->kind == 2 ? " + " : R->kind == 3 ? " - " : " = ", ds(b).c_str()));
  }
  V.show = fmt("%s -> %s %s", R->name, R->res.name, ds(r).c_str());
  return V;
}

// operand window for relations evaluated once (no rescaling): every operand, one of them squared, may enter a product
static int wide_window(int nt, int nargs) { const int b = (nt == 0 ? 120 : 1000) / (nargs + 1); const int cap = nt == 0 ? 45 : 300; return b > cap ? cap : b < 4 ? 4 : b; }

// ================================================================================================ C04
// reference contraction: dot products and tensor.vector products on the stored components (C09 textbook formulas)
static bool contraction_ref(int na, int nb, int nr, const LD* a, const LD* b, Q* out, Q* mag) {
  auto dy = [&](const LD* t, int n, int i, int j) -> Q { if (n == 9) return t[3 * i + j]; static const int m[3][3] = {{0, 1, 2}, {1, 3, 4}, {2, 4, 5}}; return t[m[i][j]]; };
  if (na == nb && (na == 2 || na == 3) && nr == 1) { out[0] = 0; mag[0] = 0; for (int i = 0; i < na; i++) { out[0] += (Q)a[i] * (Q)b[i]; mag[0] += fabsq((Q)a[i] * (Q)b[i]); } return true; }
  if ((na == 6 || na == 9) && (nb == 3 || nb == 2) && nr == nb) {
    for (int i = 0; i < nr; i++) { out[i] = 0; mag[i] = 0; for (int j = 0; j < nb; j++) { out[i] += dy(a, na, i, j) * (Q)b[j]; mag[i] += fabsq(dy(a, na, i, j) * (Q)b[j]); } }
    return true;
  }
  return false;
}
static const VfRelation* find_rel(int nt, int kind, const char* a, const char* b) {
  for (auto* r : g_rel[nt]) if (r->kind == kind && r->nargs == 2 && !std::strcmp(r->args[0].name, a) && !std::strcmp(r->args[1].name, b)) return r;
  return nullptr;
}
static Verdict c04_operator(const Case& c) {
  const int nt = (int)c.i[0]; const VfRelation* R = g_rel[nt][(size_t)c.i[1]];
  Eval E; load_operands(R, c, E); E.run(R);
  const int op = R->kind >= 7 ? R->kind - 7 : R->kind;
  const int na = R->args[0].ncomp, nb = R->args[1].ncomp, nr = R->res.ncomp;
  static const char* on[] = {"+", "-", "*", "/"};
  Verdict V; V.cls = std::string(ntinfo(nt).name) + ";" + (R->kind >= 7 ? "compound" : "operator") + on[op];
  if (R->args[0].kind == 4 || R->args[1].kind == 4 || R->res.kind == 4) V.cls += ";raw-math-type";
  const bool cw = ((op == 0 || op == 1) && na == nb && nr == na) || (op == 2 && (na == 1 || nb == 1) && nr == std::max(na, nb)) || (op == 3 && nb == 1 && nr == na);
  // a direction result re-normalises: compare directions only approximately
  if (cw && R->res.kind != 2) {
    for (int j = 0; j < nr; j++) {
      const LD x = E.st[0][na == 1 ? 0 : j], y = E.st[1][nb == 1 ? 0 : j];
      const LD want = ieee(nt, op, x, y);
      if (!same_bits(nt, E.out[j], want) && !(std::isnan(E.out[j]) && std::isnan(want)))
        return Verdict::fail(fmt("%s [%s]: component %d of the result is %s, but %s %s %s = %s in IEEE %s arithmetic (operands %s)", R->name, ntinfo(nt).name, j, hexld(E.out[j]).c_str(), hexld(x).c_str(), on[op], hexld(y).c_str(),
                                 hexld(want).c_str(), ntinfo(nt).name, show_args(R, E).c_str()));
    }
    V.cls += ";component-wise";
  } else if (op == 2) {
    Q ref[9], mag[9];
    if (contraction_ref(na, nb, nr, E.st[0], E.st[1], ref, mag) || (contraction_ref(nb, na, nr, E.st[1], E.st[0], ref, mag) && na <= 3 && (nb == 6))) {
      for (int j = 0; j < nr; j++) { double e = err_ulps(nt, E.out[j], ref[j], mag[j]); if (!(e <= 2.0)) return Verdict::fail(fmt("%s [%s]: component %d is %s, the contraction of the stored components gives %s (%.3g ulp of the sum of |terms|, allowed 2); operands %s", R->name, ntinfo(nt).name, j, hexld(E.out[j]).c_str(), qstr(ref[j]).c_str(), e, show_args(R, E).c_str())); }
      V.cls += ";contraction";
    } else V.cls += ";unclassified-shape";
  } else V.cls += ";unclassified-shape";
  // a compound assignment leaves the same value as the pure operator
  if (R->kind >= 7) {
    const VfRelation* P = find_rel(nt, op, R->args[0].name, R->args[1].name);
    if (P && !std::strcmp(P->res.name, R->res.name)) {
      Eval F; load_operands(P, c, F); F.run(P);
      for (int j = 0; j < nr; j++) if (!same_bits(nt, F.out[j], E.out[j])) return Verdict::fail(fmt("%s [%s] leaves component %d = %s, but %s gives %s (operands %s)", R->name, ntinfo(nt).name, j, hexld(E.out[j]).c_str(), P->name, hexld(F.out[j]).c_str(), show_args(R, E).c_str()));
      V.cls += ";matches-pure-operator";
    }
  }
  bool trivial = false;
  for (int k = 0; k < 2; k++) for (int j = 0; j < R->args[k].ncomp; j++) if (E.st[k][j] == 0 || E.st[k][j] == 1) trivial = true;
  if (na == nb) { bool same = true; for (int j = 0; j < na; j++) if (E.st[0][j] != E.st[1][j]) same = false; if (same) trivial = true; }
  V.nontrivial = !trivial;
  V.show = fmt("%s [%s] %s -> %s", R->name, ntinfo(nt).name, show_args(R, E).c_str(), comps_dec(E.out, nr).c_str());
  return V;
}
static rc::Gen<Case> gen_c04(int inst) {
  const Ref rf = g_ops[(size_t)inst]; const VfRelation* R = g_rel[rf.nt][(size_t)rf.idx];
  // half of the cases from a moderate window, half from (almost) the whole exponent range: overflow to infinity and underflow are IEEE results too
  const int n = total_comps(R), nt = rf.nt, w = nt == 0 ? 12 : 60, ww = nt == 0 ? 60 : nt == 1 ? 500 : 8000;
  auto plain = rc::gen::map(rc::gen::oneOf(gen_reals(n, nt, -w, w, kNeg | kZero), gen_reals(n, nt, -ww, ww, kNeg | kZero)), [=](const std::vector<LD>& v) { Case c; c.i = {nt, rf.idx}; c.r = v; return c; });
  // operands whose exact sum / difference / product lies just beside a rounding tie of the numeric type, by less than the resolution of the next wider format:
  // an operator evaluated in a wider type and rounded back (double rounding) gets these wrong, and random operands are that close with probability 2^-11
  const int op = R->kind == 7 ? 0 : R->kind == 8 ? 1 : R->kind == 9 ? 2 : R->kind;
  if (nt == 0 || op > 2 || R->nargs != 2) return plain;
  const int p = ntinfo(nt).mant;
  auto ties = rc::gen::map(rc::gen::tuple(gen_real(nt, -40, 40, kNeg), rc::gen::container<std::vector<int>>((size_t)n + 2, irange(0, 1000))), [=](const std::tuple<LD, std::vector<int>>& t) {
    Case c; c.i = {nt, rf.idx}; c.r.assign((size_t)n, 0);
    const std::vector<int>& r = std::get<1>(t);
    const int na = R->args[0].ncomp, nb = R->args[1].ncomp;
    if (op <= 1) {
      // a (+|-) b with |b| = ulp(a)/2 + ulp(a) 2^-k: exactly representable, the exact result is a tie plus a sliver
      for (int j = 0; j < na; j++) {
        int e = 0; const LD fr = std::frexp(std::get<0>(t), &e); const LD a = round_to(nt, std::ldexp(fr + std::ldexp((LD)r[(size_t)j], -30), e));
        const LD u = ulp_at(nt, a); const int k = 12 + r[(size_t)j] % 28;
        LD b = u / 2 + std::ldexp(u, -k); if ((a < 0) != (op == 1)) b = -b;   // moves |a| away from zero
        c.r[(size_t)j] = a; if (j < nb) c.r[(size_t)(na + j)] = b;
      }
    } else {
      // (1 + 2^-i)(1 + 2^-j + c 2^-(p-1)) with i + j = p: the cross term 2^-p is half an ulp, the rest is far below the resolution of the wider format
      const int i = 13 + r[0] % (p - 28), jx = p - i;
      const LD x = std::ldexp(1 + std::ldexp((LD)1, -i), r[1] % 60 - 30) * (r[1] % 2 ? -1 : 1);
      for (int j = 0; j < na; j++) c.r[(size_t)j] = x;
      for (int j = 0; j < nb; j++) c.r[(size_t)(na + j)] = std::ldexp(1 + std::ldexp((LD)1, -jx) + std::ldexp((LD)(1 + r[(size_t)(2 + j) % r.size()] % 3), -(p - 1)), r[(size_t)(2 + j) % r.size()] % 40 - 20);
    }
    return c; });
  return rc::gen::oneOf(plain, plain, plain, plain, plain, ties);
}
// constructor with an operator twin
struct Twin { int nt; int ctor; int op; bool swapped; };
static std::vector<Twin> g_twins;
static void find_twins() {
  for (int nt = 0; nt < 3; nt++) for (size_t ci = 0; ci < g_rel[nt].size(); ci++) {
    const VfRelation* C = g_rel[nt][ci];
    if (C->kind != 4 || C->nargs != 2) continue;
    for (size_t oi = 0; oi < g_rel[nt].size(); oi++) {
      const VfRelation* O = g_rel[nt][oi];
      if (O->kind > 3 || std::strcmp(O->res.name, C->res.name)) continue;
      if (!std::strcmp(O->args[0].name, C->args[0].name) && !std::strcmp(O->args[1].name, C->args[1].name)) g_twins.push_back({nt, (int)ci, (int)oi, false});
      else if (!std::strcmp(O->args[0].name, C->args[1].name) && !std::strcmp(O->args[1].name, C->args[0].name)) g_twins.push_back({nt, (int)ci, (int)oi, true});
    }
  }
}
static Verdict c04_twin(const Case& c) {
  const Twin& t = g_twins[(size_t)c.i[0]];
  const VfRelation* C = g_rel[t.nt][(size_t)t.ctor]; const VfRelation* O = g_rel[t.nt][(size_t)t.op];
  Eval E, F; load_operands(C, c, E);
  for (int j = 0; j < 9; j++) { F.in[0][j] = E.in[t.swapped ? 1 : 0][j]; F.in[1][j] = E.in[t.swapped ? 0 : 1][j]; }
  E.run(C); F.run(O);
  // the same physical relation can be declared with several operators (a * b and b * a, or ambiguous same-type operands): a twin is only
  // claimed when constructor and operator agree on the formula, which is what is being checked; same-type operands (a - a) are skipped
  if (!std::strcmp(C->args[0].name, C->args[1].name) && O->kind != 0 && O->kind != 2) return Verdict::skip("same-type-operands-order-ambiguous");
  for (int j = 0; j < C->res.ncomp; j++) if (!same_bits(t.nt, E.out[j], F.out[j]) && !(std::isnan(E.out[j]) && std::isnan(F.out[j])))
    return Verdict::fail(fmt("%s [%s] = %s but its operator twin %s = %s (operands %s)", C->name, ntinfo(t.nt).name, comps(E.out, C->res.ncomp).c_str(), O->name, comps(F.out, C->res.ncomp).c_str(), show_args(C, E).c_str()));
  Verdict V; V.cls = std::string(ntinfo(t.nt).name) + (t.swapped ? ";operands-swapped" : ";same-order"); V.nontrivial = true;
  for (int k = 0; k < 2; k++) for (int j = 0; j < C->args[k].ncomp; j++) if (E.st[k][j] == 0 || E.st[k][j] == 1) V.nontrivial = false;
  V.show = fmt("%s == %s [%s] on %s", C->name, O->name, ntinfo(t.nt).name, show_args(C, E).c_str());
  return V;
}
// histories of compound assignments against a plain array model and against the chain of pure operators
static std::vector<Ref> g_cmpall;
static Verdict c04_history(const Case& c) {
  const int nt = (int)c.i[0]; const VfCompound* H = g_cmp[nt][(size_t)c.i[1]]; const int n = H->ncomp, nops = (int)c.i[2];
  std::vector<int> ops; for (int k = 0; k < nops; k++) ops.push_back((int)c.i[(size_t)(3 + k)]);
  std::vector<LD> args(c.r.begin() + 9, c.r.end()), a1((size_t)nops * (size_t)n), a2((size_t)nops * (size_t)n), st((size_t)nops * 9), st2((size_t)nops * 9);
  H->run(c.r.data(), ops.data(), args.data(), nops, 0, a1.data(), st.data());
  H->run(c.r.data(), ops.data(), args.data(), nops, 1, a2.data(), st2.data());
  LD model[9]; for (int j = 0; j < n; j++) model[j] = round_to(nt, c.r[(size_t)j]);
  static const char* on[] = {"+= q", "-= q", "*= n", "/= n", "x += x", "x -= x", "x = x", "x = std::move(copy of x)"};
  bool add = false, mul = false, self = false;
  for (int k = 0; k < nops; k++) {
    const int op = ops[(size_t)k];
    if (op >= 4) { self = true; for (int j = 0; j < n; j++) { if (op == 4) model[j] = ieee(nt, 0, model[j], model[j]); else if (op == 5) model[j] = ieee(nt, 1, model[j], model[j]); } }
    else for (int j = 0; j < n; j++) model[j] = ieee(nt, op, model[j], op <= 1 ? st[(size_t)k * 9 + (size_t)j] : st[(size_t)k * 9]);
    if (op <= 1) add = true; else if (op <= 3) mul = true;
    for (int j = 0; j < n; j++) {
      const LD got = a1[(size_t)k * (size_t)n + (size_t)j], pure = a2[(size_t)k * (size_t)n + (size_t)j];
      if (!same_bits(nt, got, model[j]) && !(std::isnan(got) && std::isnan(model[j])))
        return Verdict::fail(fmt("%s<%s>: after step %d (%s) of a compound-assignment history component %d is %s, a plain array of numbers updated with the same operator holds %s", H->name, ntinfo(nt).name, k, on[op], j, hexld(got).c_str(), hexld(model[j]).c_str()));
      if (!same_bits(nt, got, pure) && !(std::isnan(got) && std::isnan(pure)))
        return Verdict::fail(fmt("%s<%s>: after step %d (%s) the compound assignments hold %s in component %d, the chain of pure operators x = x op y holds %s", H->name, ntinfo(nt).name, k, on[op], hexld(got).c_str(), j, hexld(pure).c_str()));
    }
  }
  Verdict V; V.cls = std::string(ntinfo(nt).name) + ";len" + std::to_string(nops <= 4 ? nops : nops <= 12 ? 8 : 24) + (self ? ";with-self-operand" : ""); V.nontrivial = add && mul; return V;
}
static rc::Gen<Case> gen_c04_history(int inst) {
  const Ref rf = g_cmpall[(size_t)inst]; const int nt = rf.nt; const int w = nt == 0 ? 6 : 20;
  return rc::gen::mapcat(irange(1, 24), [=](int nops) {
    // 0..3 with weight 3 each, the four self-operand steps with weight 1 each
    return rc::gen::map(rc::gen::tuple(rc::gen::container<std::vector<int>>((size_t)nops, irange(0, 15)), gen_reals(9 + 9 * nops, nt, -w, w, kNeg)),
                        [=](const std::tuple<std::vector<int>, std::vector<LD>>& t) { Case c; c.i = {nt, rf.idx, nops}; for (int x : std::get<0>(t)) c.i.push_back(x < 12 ? x / 3 : x - 8); c.r = std::get<1>(t); return c; });
  });
}
static std::vector<Ref> g_stdall;
static LD std_ref(int nt, const char* fn, LD x, LD y, int et) {
  const std::string f = fn;
#define VF_STD1(T)                                                                                                       \
  { T v = (T)x;                                                                                                          \
    if (f == "abs") return std::abs(v); if (f == "cbrt") return std::cbrt(v); if (f == "exp") return std::exp(v); if (f == "log") return std::log(v); \
    if (f == "log2") return std::log2(v); if (f == "log10") return std::log10(v); if (f == "sqrt") return std::sqrt(v);   \
    switch (et) { case 0: return (T)std::pow(v, (float)y); case 1: return (T)std::pow(v, (double)y); case 2: return (T)std::pow(v, (long double)y); default: return (T)std::pow(v, (int)y); } }
  if (nt == 0) VF_STD1(float) if (nt == 1) VF_STD1(double) VF_STD1(long double)
#undef VF_STD1
}
static Verdict c04_std(const Case& c) {
  const int nt = (int)c.i[0]; const VfStdFn* S = g_std[nt][(size_t)c.i[1]]; const int et = (int)c.i[2];
  LD stored = 0; const LD y = et == 3 ? (LD)(long long)c.r[1] : round_to(et, c.r[1]);
  const LD got = S->f(c.r[0], y, et, &stored);
  const LD want = std_ref(nt, S->fname, stored, y, et);
  if (!same_bits(nt, got, want) && !(std::isnan(got) && std::isnan(want)))
    return Verdict::fail(fmt("std::%s(%s<%s>{%s}%s) = %s but std::%s of the stored number is %s", S->fname, S->qname, ntinfo(nt).name, hexld(stored).c_str(), S->binary ? fmt(", %s", hexld(y).c_str()).c_str() : "", hexld(got).c_str(), S->fname, hexld(want).c_str()));
  Verdict V; V.cls = std::string(ntinfo(nt).name) + ";" + S->fname; V.nontrivial = stored != 0 && stored != 1; return V;
}

// ================================================================================================ C05
struct Pair { int nt; int r1, r2; int target; std::vector<int> map; bool exact; const char* why; };  // r2 argument j takes: -1 => the result of r1, else r1's argument map[j]
static std::vector<Pair> g_pairs;
static bool quantity_kind(int k) { return k == 0 || k == 1; }
static bool value_kind(int k) { return k == 0 || k == 1 || k == 3; }
static void find_pairs() {
  for (int nt = 0; nt < 3; nt++) {
    auto& L = g_rel[nt];
    for (size_t i1 = 0; i1 < L.size(); i1++) {
      const VfRelation* r1 = L[i1];
      const bool ctor1 = r1->kind == 4, op1 = r1->kind <= 3, mem1 = r1->kind == 5;
      if (!ctor1 && !op1 && !mem1) continue;
      if (!value_kind(r1->res.kind)) continue;
      bool ok = true; for (int a = 0; a < r1->nargs; a++) if (!value_kind(r1->args[a].kind)) ok = false;
      if (!ok) continue;
      if (r1->nargs > 4) continue;  // component constructors are not relations with an inverse
      for (int t = 0; t < r1->nargs; t++) {          // solve for argument t
        if (r1->args[t].kind == 3 && !op1) continue;
        for (size_t i2 = 0; i2 < L.size(); i2++) {
          const VfRelation* r2 = L[i2];
          if (r2->nargs != r1->nargs) continue;
          if (std::strcmp(r2->res.name, r1->args[t].name) || r2->res.ncomp != r1->args[t].ncomp) continue;
          if (ctor1 || mem1) { if (r2->kind != 4 && r2->kind != 5) continue; }
          else {
            // operator pairs are paired by algebra, not by signature
            if (r2->kind > 3) continue;
            const int o1 = r1->kind, o2 = r2->kind;
            bool alg = false;
            if (t == 0) alg = (o1 == 0 && o2 == 1) || (o1 == 1 && o2 == 0) || (o1 == 2 && o2 == 3) || (o1 == 3 && o2 == 2);   // a+b=c: c-b ; a-b=c: c+b ; a*b=c: c/b ; a/b=c: c*b
            else alg = (o1 == 0 && o2 == 1) || (o1 == 1 && o2 == 1) || (o1 == 2 && o2 == 3) || (o1 == 3 && o2 == 3);           // a+b=c: c-a ; a-b=c: a-c ; a*b=c: c/a ; a/b=c: a/c
            if (!alg) continue;
          }
          // match r2's arguments: exactly one takes r1's result (type C), the others take r1's remaining arguments, each used once
          std::vector<int> map((size_t)r2->nargs, -2); std::vector<bool> used((size_t)r1->nargs, false); used[(size_t)t] = true;
          bool usedC = false, fail = false;
          if (op1) {
            // operand order is fixed by the algebra
            const int o1 = r1->kind; int cpos;
            if (t == 0) cpos = (o1 == 3 || o1 == 1) ? 0 : 0;           // c - b, c + b, c / b, c * b  : c first, then b
            else cpos = (o1 == 1 || o1 == 3) ? 1 : 0;                   // a - c, a / c : c second ; c - a, c / a : c first
            const int other = 1 - t;
            map[(size_t)cpos] = -1; map[(size_t)(1 - cpos)] = other;
            if (std::strcmp(r2->args[(size_t)cpos].name, r1->res.name) || std::strcmp(r2->args[(size_t)(1 - cpos)].name, r1->args[other].name)) {
              // commutative forms: c + b may be declared as b + c, c * b as b * c
              const bool comm = r2->kind == 0 || r2->kind == 2;
              if (comm && !std::strcmp(r2->args[(size_t)(1 - cpos)].name, r1->res.name) && !std::strcmp(r2->args[(size_t)cpos].name, r1->args[other].name)) { map[(size_t)(1 - cpos)] = -1; map[(size_t)cpos] = other; }
              else fail = true;
            }
          } else {
            for (int j = 0; j < r2->nargs && !fail; j++) {
              bool done = false;
              // prefer an unused original argument of that type; the result fills the remaining slot of its type
              for (int a = 0; a < r1->nargs; a++) if (!used[(size_t)a] && !std::strcmp(r1->args[a].name, r2->args[j].name) && r1->args[a].ncomp == r2->args[j].ncomp) { map[(size_t)j] = a; used[(size_t)a] = true; done = true; break; }
              if (!done) { if (!usedC && !std::strcmp(r2->args[j].name, r1->res.name) && r2->args[j].ncomp == r1->res.ncomp) { map[(size_t)j] = -1; usedC = true; } else fail = true; }
            }
            if (!fail) { if (!usedC) fail = true; for (int a = 0; a < r1->nargs; a++) if (!used[(size_t)a]) fail = true; }
            // one-argument relations: shapes must agree, except the lossless planar embedding 2-D -> 3-D -> 2-D
            if (!fail && r1->nargs == 1) { const int na = r1->args[0].ncomp, nc = r1->res.ncomp; if (!(na == nc || (na == 2 && nc == 3))) fail = true; }
          }
          if (fail) continue;
          Pair p; p.nt = nt; p.r1 = (int)i1; p.r2 = (int)i2; p.target = t; p.map = map;
          p.exact = (r1->nargs == 1 && r1->args[0].ncomp == 2 && r1->res.ncomp == 3);
          p.why = "";
          g_pairs.push_back(p);
        }
      }
    }
  }
}

static Verdict c05_pair(const Case& c) {
  const Pair& P = g_pairs[(size_t)c.i[0]]; const int nt = P.nt;
  const VfRelation* r1 = g_rel[nt][(size_t)P.r1]; const VfRelation* r2 = g_rel[nt][(size_t)P.r2];
  Eval E; load_operands(r1, c, E); E.run(r1);
  const int nc = r1->res.ncomp, na = r1->args[P.target].ncomp;
  if (!finite_all(E.out, nc) || all_zero(E.out, nc)) {
    std::string why;
    if (representable_in_rescaled_units(r1, E, nt, &why))
      return Verdict::fail(fmt("%s [%s] returns %s for the finite operands %s although the result is representable: %s", r1->name, ntinfo(nt).name, comps_dec(E.out, nc).c_str(), show_args(r1, E).c_str(), why.c_str()));
    return Verdict::skip(all_zero(E.out, nc) ? "intermediate-zero" : "intermediate-not-finite");
  }
  for (int j = 0; j < nc; j++) if (E.out[j] != 0 && std::fabs(E.out[j]) < std::ldexp((LD)1, ntinfo(nt).emin + 2)) return Verdict::skip("intermediate-subnormal");
  auto back = [&](const LD* cvals, LD* outv) {
    Eval F;
    for (int j = 0; j < r2->nargs; j++) { const LD* src = P.map[(size_t)j] == -1 ? cvals : E.st[P.map[(size_t)j]]; for (int q = 0; q < 9; q++) F.in[j][q] = src[q]; }
    F.run(r2); for (int q = 0; q < na; q++) outv[q] = F.out[q];
  };
  LD a2[9];
  back(E.out, a2);
  if (!finite_all(a2, na)) {
    Eval F; std::string why;
    for (int j = 0; j < r2->nargs; j++) { const LD* src = P.map[(size_t)j] == -1 ? E.out : E.st[P.map[(size_t)j]]; for (int q = 0; q < 9; q++) F.in[j][q] = F.st[j][q] = src[q]; }
    if (representable_in_rescaled_units(r2, F, nt, &why))
      return Verdict::fail(fmt("%s [%s] (the inverse of %s) returns %s for the finite operands %s although the result is representable: %s", r2->name, ntinfo(nt).name, r1->name, comps_dec(a2, na).c_str(), show_args(r2, F).c_str(), why.c_str()));
    return Verdict::skip("inverse-not-finite");
  }
  const LD* a = E.st[P.target];
  Verdict V; V.cls = std::string(ntinfo(nt).name) + ";kind" + std::to_string(r1->kind) + "/" + std::to_string(r2->kind);
  if (P.exact) {
    for (int q = 0; q < na; q++) if (!same_bits(nt, a2[q], a[q])) return Verdict::fail(fmt("%s then %s [%s]: the planar embedding is lossless, but component %d came back as %s instead of %s", r1->name, r2->name, ntinfo(nt).name, q, hexld(a2[q]).c_str(), hexld(a[q]).c_str()));
    V.nontrivial = true; V.cls += ";embedding-exact"; return V;
  }
  // measured conditioning (DESIGN 4.6): amplification, in ulps of the recovered operand, of one-ulp perturbations of
  //   kc : the intermediate c (input of the inverse relation)         k2 : the other arguments of the inverse relation
  //   k1 : the operands of the forward relation, in ulps of c (models the forward relation's own rounding as a backward error)
  LD amax = 0; for (int q = 0; q < na; q++) amax = std::max(amax, std::fabs(a[q]));
  if (amax == 0) return Verdict::skip("zero-operand");
  auto scale_of = [&](int q) { return na == nc ? std::max(std::fabs(a[q]), amax * std::ldexp((LD)1, -ntinfo(nt).mant)) : amax; };
  bool singular = false;
  auto amp_back = [&](int j /* argument of r2 to perturb */) {
    Eval Fp, Fm;
    for (int jj = 0; jj < r2->nargs; jj++) { const LD* src = P.map[(size_t)jj] == -1 ? E.out : E.st[P.map[(size_t)jj]]; for (int q = 0; q < 9; q++) Fp.in[jj][q] = Fm.in[jj][q] = src[q]; }
    for (int q = 0; q < r2->args[j].ncomp; q++) { const LD u = ulp_at(nt, Fp.in[j][q]); Fp.in[j][q] += u; Fm.in[j][q] -= u; }
    Fp.run(r2); Fm.run(r2);
    double k = 0;
    for (int q = 0; q < na; q++) { if (!std::isfinite(Fp.out[q]) || !std::isfinite(Fm.out[q])) { singular = true; continue; } k = std::max(k, (double)(std::fabs(Fp.out[q] - Fm.out[q]) / (2 * ulp_at(nt, scale_of(q))))); }
    return k;
  };
  double kc = 0, k2 = 0, k1 = 0;
  for (int j = 0; j < r2->nargs; j++) { const double k = amp_back(j); if (P.map[(size_t)j] == -1) kc = k; else k2 += k; }
  {
    LD cmax = 0; for (int q = 0; q < nc; q++) cmax = std::max(cmax, std::fabs(E.out[q]));
    for (int j = 0; j < r1->nargs; j++) {
      Eval Fp, Fm;
      for (int jj = 0; jj < r1->nargs; jj++) for (int q = 0; q < 9; q++) Fp.in[jj][q] = Fm.in[jj][q] = E.st[jj][q];
      for (int q = 0; q < r1->args[j].ncomp; q++) { const LD u = ulp_at(nt, Fp.in[j][q]); Fp.in[j][q] += u; Fm.in[j][q] -= u; }
      Fp.run(r1); Fm.run(r1);
      double k = 0;
      for (int q = 0; q < nc; q++) { if (!std::isfinite(Fp.out[q]) || !std::isfinite(Fm.out[q])) { singular = true; continue; } const LD sc = nc == r1->args[j].ncomp ? std::max(std::fabs(E.out[q]), cmax * std::ldexp((LD)1, -ntinfo(nt).mant)) : cmax; if (sc == 0) continue; k = std::max(k, (double)(std::fabs(Fp.out[q] - Fm.out[q]) / (2 * ulp_at(nt, sc)))); }
      k1 += k;
    }
  }
  if (singular) { Verdict S = Verdict::skip("singular-within-one-ulp"); return S; }
  // kappa = k2 + kc: the forward relation is expected to deliver its result to a few ulps, which the inverse amplifies by kc; the inverse's own roundings act like
  // perturbations of its arguments (k2 + kc).  The allowance for k2 is needed by the pinned tree itself: cp (1 - 1/gamma) and gamma R / (gamma - 1) lose 1 / |gamma - 1| ulps
  // near gamma = 1 (2e9 ulp in long double at gamma = 1 - 2^-32), which is the conditioning of those maps with respect to gamma.  k1 (sensitivity of the forward
  // relation to its own operands) is measured and reported but not allowed for a second time: the pinned tree passes without it (5 x 24.8 million thorough cases)
  const double kappa = k2 + kc;
  double worst = 0; int wq = 0;
  for (int q = 0; q < na; q++) { const double e = (double)(std::fabs(a2[q] - a[q]) / ulp_at(nt, scale_of(q))); if (!(e <= worst)) { worst = e; wq = q; } }
  const double tol = 4.0 * (1.0 + kappa);
  if (!(worst <= tol))
    return Verdict::fail(fmt("%s then %s [%s] does not return the original %s: component %d is %s instead of %s (%.4g ulp; allowed 4(1+kappa) = %.4g with measured conditioning kappa = k2 + kc = %.3g + %.3g; forward sensitivity k1 = %.3g); operands %s, intermediate %s",
                             r1->name, r2->name, ntinfo(nt).name, r1->args[P.target].name, wq, decld(a2[wq]).c_str(), decld(a[wq]).c_str(), worst, tol, k2, kc, k1, show_args(r1, E).c_str(), comps_dec(E.out, nc).c_str()));
  V.cls += kappa <= 16 ? ";well-conditioned" : kappa <= 4096 ? ";kappa<=4096" : ";ill-conditioned";
  V.nontrivial = kappa <= 16;
  V.show = fmt("%s -> %s [%s] %s: %.2f ulp, kappa %.2f", r1->name, r2->name, ntinfo(nt).name, show_args(r1, E).c_str(), worst, kappa);
  return V;
}
static rc::Gen<Case> gen_c05(int inst) {
  const Pair& P = g_pairs[(size_t)inst]; const VfRelation* r1 = g_rel[P.nt][(size_t)P.r1];
  const int n = total_comps(r1), nt = P.nt, w = wide_window(nt, r1->nargs);
  bool vec = false; for (int a = 0; a < r1->nargs; a++) if (r1->args[a].ncomp > 1) vec = true;
  // "for all positive finite inputs"; components of vector/tensor operands may have either sign
  return rc::gen::map(rc::gen::tuple(gen_reals(n, nt, -w, w, vec ? kNeg : 0u), rc::gen::container<std::vector<int>>((size_t)r1->nargs, irange(0, 999))), [=](const std::tuple<std::vector<LD>, std::vector<int>>& t) {
    Case c; c.i = {inst}; c.r = std::get<0>(t);
    size_t p = 0;
    for (int a = 0; a < r1->nargs; a++) {
      // dimensionless scalar operands (ratios, Mach / Reynolds / Prandtl numbers, Poisson's ratio): half of the cases close to one, 1 +- 2^-k (1 + f) -
      // where relations that involve x - 1 or 1 - 1/x lose the operand if they are evaluated carelessly
      const int r = std::get<1>(t)[(size_t)a];
      if (r1->args[a].ncomp == 1 && r1->args[a].kind == 1 && r % 2 == 0) {
        const int k = 1 + (r / 2) % (ntinfo(nt).mant - 3);
        const LD f = std::ldexp(std::fabs(c.r[p]), -std::ilogb(std::fabs(c.r[p]) > 0 ? std::fabs(c.r[p]) : (LD)1)) - 1;   // the generated mantissa, in [0, 1)
        c.r[p] = round_to(nt, 1 + ((r / 2) % 2 ? -1 : 1) * std::ldexp(1 + f, -k));
      }
      for (int j = 0; j < r1->args[a].ncomp; j++, p++) if (r1->args[a].ncomp == 1) c.r[p] = std::fabs(c.r[p]);
    }
    return c;
  });
}

// ================================================================================================ C10 / C11 at quantity level
// squared length must neither overflow nor underflow: ||v||^2 >= min_normal * 2^(p+2)  (DESIGN 5 C10)
static int len_lo(int nt) { return (ntinfo(nt).emin + ntinfo(nt).mant + 2) / 2 + 1; }
static int len_hi(int nt) { return (ntinfo(nt).emax - 3) / 2; }
static Q qnorm(const LD* v, int n) {  // scaled by an exact power of two so that the reference itself neither overflows nor underflows
  LD m = 0; for (int i = 0; i < n; i++) m = std::max(m, std::fabs(v[i])); if (m == 0) return 0; int e; std::frexp(m, &e);
  Q s = 0; for (int i = 0; i < n; i++) { const Q x = ldexpq((Q)v[i], -e); s += x * x; } return ldexpq(sqrtq(s), e);
}
// a vector of n components: random orientation x length 2^k, with axis-aligned / two-axis / near-degenerate variants
static rc::Gen<std::vector<LD>> gen_vector(int nt, int n, bool allow_zero, int margin = 2) {
  return rc::gen::map(rc::gen::tuple(gen_reals(n, nt, -1, 1, kNeg), irange(len_lo(nt) + margin, len_hi(nt) - margin), irange(0, 9), irange(0, n - 1), irange(1, 40)),
                      [=](const std::tuple<std::vector<LD>, int, int, int, int>& t) {
                        std::vector<LD> v = std::get<0>(t); const int k = std::get<1>(t), mode = std::get<2>(t), ax = std::get<3>(t), deg = std::get<4>(t);
                        if (mode == 0) { for (int i = 0; i < n; i++) if (i != ax) v[(size_t)i] = 0; }                    // axis-aligned
                        else if (mode == 1 && n == 3) v[(size_t)ax] = 0;                                                   // two-axis
                        else if (mode == 2) v[(size_t)ax] = std::ldexp(v[(size_t)ax], -deg);                               // near-degenerate
                        else if (mode == 3 && allow_zero) { for (auto& x : v) x = 0; }                                     // zero vector
                        else if (mode == 4) v[(size_t)ax] = std::signbit(v[(size_t)ax]) ? -(LD)0 : (LD)0;                  // a signed-zero component
                        else if (mode == 5 || mode == 6) {                                                                 // nearly unit length at absolute scale one: |v| = 1 +- 2^-j
                          LD len = 0; for (int i = 0; i < n; i++) len += v[(size_t)i] * v[(size_t)i]; len = std::sqrt(len);
                          if (len > 0) { const LD f = 1 + (mode == 5 ? 1 : -1) * std::ldexp((LD)1, -(8 + deg)); for (int i = 0; i < n; i++) v[(size_t)i] = round_to(nt, v[(size_t)i] / len * f); return v; }
                        }
                        for (auto& x : v) x = std::ldexp(x, k);
                        return v;
                      });
}
static std::vector<Ref> g_mag, g_comp, g_dirrel, g_angle;
struct Rebuild { int nt; int mag, dir, build; bool dir_first; };
static std::vector<Rebuild> g_rebuild;
static int comp_index(const char* m, int n) {
  static const char* c2[] = {"x", "y"}; static const char* c3[] = {"x", "y", "z"}; static const char* c6[] = {"xx", "xy", "xz", "yy", "yz", "zz"}; static const char* c9[] = {"xx", "xy", "xz", "yx", "yy", "yz", "zx", "zy", "zz"};
  const char* const* names = n == 2 ? c2 : n == 3 ? c3 : n == 6 ? c6 : c9;
  if (n != 2 && n != 3 && n != 6 && n != 9) return -1;
  for (int i = 0; i < n; i++) if (!std::strcmp(names[i], m)) return i;
  if (n == 6) { if (!std::strcmp(m, "yx")) return 1; if (!std::strcmp(m, "zx")) return 2; if (!std::strcmp(m, "zy")) return 4; }
  return -1;
}
static void find_c10() {
  for (int nt = 0; nt < 3; nt++) for (size_t i = 0; i < g_rel[nt].size(); i++) {
    const VfRelation* r = g_rel[nt][i];
    if (r->kind == 5 && !std::strcmp(r->member, "Magnitude") && (r->args[0].ncomp == 2 || r->args[0].ncomp == 3)) g_mag.push_back({nt, (int)i});
    if (r->kind == 5 && comp_index(r->member, r->args[0].ncomp) >= 0 && r->res.ncomp == 1) g_comp.push_back({nt, (int)i});
    const bool dirres = r->res.kind == 2 && r->nargs == 1 && r->args[0].ncomp == r->res.ncomp && r->args[0].kind != 2;
    if (dirres && (r->kind == 4 || r->kind == 5)) g_dirrel.push_back({nt, (int)i});
    if (!std::strcmp(r->res.name, "Angle") && r->nargs == 2 && (r->kind == 4 || r->kind == 6) && r->args[0].ncomp >= 2 && r->args[0].ncomp <= 3 && r->args[1].ncomp == r->args[0].ncomp) g_angle.push_back({nt, (int)i});
  }
  // magnitude x direction rebuilds the quantity: Q(scalar, direction), scalar * direction, direction * scalar
  for (int nt = 0; nt < 3; nt++) for (size_t i = 0; i < g_rel[nt].size(); i++) {
    const VfRelation* b = g_rel[nt][i];
    if (b->nargs != 2 || !(b->kind == 4 || b->kind == 2)) continue;
    int di = b->args[0].kind == 2 ? 0 : b->args[1].kind == 2 ? 1 : -1; if (di < 0) continue;
    const VfArg& sc = b->args[1 - di]; if (sc.ncomp != 1 || b->res.ncomp != b->args[di].ncomp || b->res.kind != 0) continue;
    int mag = -1, dir = -1;
    for (size_t j = 0; j < g_rel[nt].size(); j++) {
      const VfRelation* m = g_rel[nt][j];
      if (m->kind != 5 || std::strcmp(m->args[0].name, b->res.name)) continue;
      if (!std::strcmp(m->member, "Magnitude") && !std::strcmp(m->res.name, sc.name)) mag = (int)j;
      if (m->res.kind == 2 && !std::strcmp(m->res.name, b->args[di].name)) dir = (int)j;
    }
    if (mag >= 0 && dir >= 0) g_rebuild.push_back({nt, mag, dir, (int)i, di == 0});
  }
}
static bool distinct_all_impl(const LD* v, int n);
static Verdict c10_magnitude(const Case& c) {
  const int nt = (int)c.i[0]; const VfRelation* R = g_rel[nt][(size_t)c.i[1]]; const int n = R->args[0].ncomp;
  Eval E; load_operands(R, c, E); E.run(R);
  for (int q = 0; q < 7; q++) if (R->res.dims[q] != R->args[0].dims[q]) return Verdict::fail(fmt("%s returns %s, whose declared dimension set differs from that of %s", R->name, R->res.name, R->args[0].name));
  if (R->res.ncomp != 1 || R->res.kind != R->args[0].kind) return Verdict::fail(fmt("%s does not return a scalar quantity", R->name));
  const Q ref = qnorm(E.st[0], n);
  bool zero = true; for (int i = 0; i < n; i++) if (E.st[0][i] != 0) zero = false;
  if (zero) { if (E.out[0] != 0) return Verdict::fail(fmt("%s of the zero vector is %s", R->name, hexld(E.out[0]).c_str())); Verdict V; V.cls = "zero"; return V; }
  const double e = err_ulps(nt, E.out[0], ref, ref);
  if (!(e <= 3.0)) return Verdict::fail(fmt("%s [%s] of %s is %s, the Euclidean norm is %s (%.3g ulp, allowed 3)", R->name, ntinfo(nt).name, comps_dec(E.st[0], n).c_str(), decld(E.out[0]).c_str(), qstr(ref).c_str(), e));
  Verdict V; V.cls = std::string(ntinfo(nt).name) + ";" + real_class((LD)ref); V.nontrivial = true; int nz = 0; for (int i = 0; i < n; i++) if (E.st[0][i] != 0) nz++; if (nz < 2) { V.nontrivial = false; V.cls += ";axis-aligned"; }
  return V;
}
static Verdict c10_component(const Case& c) {
  const int nt = (int)c.i[0]; const VfRelation* R = g_rel[nt][(size_t)c.i[1]]; const int n = R->args[0].ncomp;
  Eval E; load_operands(R, c, E); E.run(R);
  const int k = comp_index(R->member, n);
  if (!same_bits(nt, E.out[0], E.st[0][k])) return Verdict::fail(fmt("%s [%s] of %s returns %s, the stored component is %s", R->name, ntinfo(nt).name, comps(E.st[0], n).c_str(), hexld(E.out[0]).c_str(), hexld(E.st[0][k]).c_str()));
  if (R->args[0].kind == 0) for (int q = 0; q < 7; q++) if (R->res.dims[q] != R->args[0].dims[q]) return Verdict::fail(fmt("%s returns %s, whose declared dimension set differs from that of %s", R->name, R->res.name, R->args[0].name));
  Verdict V; V.cls = ntinfo(nt).name; V.nontrivial = distinct_all_impl(E.st[0], n); return V;
}
static Verdict c10_direction(const Case& c) {
  const int nt = (int)c.i[0]; const VfRelation* R = g_rel[nt][(size_t)c.i[1]]; const int n = R->args[0].ncomp;
  Eval E; load_operands(R, c, E); E.run(R);
  bool zero = true; for (int i = 0; i < n; i++) if (E.st[0][i] != 0) zero = false;
  if (zero) { for (int i = 0; i < n; i++) if (E.out[i] != 0 || std::signbit(E.out[i])) return Verdict::fail(fmt("%s of the zero vector has component %d = %s, expected exactly +0", R->name, i, hexld(E.out[i]).c_str())); Verdict V; V.cls = "zero-vector"; V.nontrivial = true; return V; }
  const Q len = qnorm(E.st[0], n);
  const Q dl = qnorm(E.out, n);
  const double el = (double)(fabsq(dl - 1) / (Q)eps_of(nt));
  if (!(el <= 4.0)) return Verdict::fail(fmt("%s [%s] of %s has length 1 %+.3g ulp (allowed 4): %s", R->name, ntinfo(nt).name, comps_dec(E.st[0], n).c_str(), (double)((dl - 1) / (Q)eps_of(nt)), comps_dec(E.out, n).c_str()));
  for (int i = 0; i < n; i++) {
    const Q want = (Q)E.st[0][i] / len;
    if (want == 0) { if (E.out[i] != 0) return Verdict::fail(fmt("%s: component %d should vanish", R->name, i)); continue; }
    if (fabsq(want) < ldexpq(1, ntinfo(nt).emin + 2)) continue;   // a component this far below the others underflows legitimately
    const double e = err_ulps(nt, E.out[i], want, want);
    if (!(e <= 4.0)) return Verdict::fail(fmt("%s [%s] of %s: component %d is %s, v_i/|v| = %s (%.3g ulp, allowed 4): not parallel to the input", R->name, ntinfo(nt).name, comps_dec(E.st[0], n).c_str(), i, decld(E.out[i]).c_str(), qstr(want).c_str(), e));
  }
  // positive rescaling: exactly unchanged for powers of two, to rounding otherwise
  const int k = (int)c.i[2]; const LD s = c.r[(size_t)n];
  int e0; std::frexp((LD)len, &e0);
  if (e0 + k > len_lo(nt) + 1 && e0 + k < len_hi(nt) - 1) {
    Eval F; for (int i = 0; i < n; i++) F.in[0][i] = std::ldexp(E.st[0][i], k); F.run(R);
    for (int i = 0; i < n; i++) if (!same_bits(nt, F.out[i], E.out[i]) && !(F.out[i] == 0 && E.out[i] == 0)) return Verdict::fail(fmt("%s [%s]: scaling the input %s by 2^%d changes component %d of the direction from %s to %s", R->name, ntinfo(nt).name, comps(E.st[0], n).c_str(), k, i, hexld(E.out[i]).c_str(), hexld(F.out[i]).c_str()));
  }
  {
    Eval F; bool okr = true; for (int i = 0; i < n; i++) { F.in[0][i] = round_to(nt, E.st[0][i] * s); if (E.st[0][i] != 0 && (!std::isfinite(F.in[0][i]) || std::fabs(F.in[0][i]) < std::ldexp((LD)1, len_lo(nt)) || std::fabs(F.in[0][i]) > std::ldexp((LD)1, len_hi(nt)))) okr = false; }
    if (okr) { F.run(R); for (int i = 0; i < n; i++) { const Q want = (Q)E.st[0][i] / len; if (fabsq(want) < ldexpq(1, -20)) continue; const double e = err_ulps(nt, F.out[i], want, want); if (!(e <= 6.0)) return Verdict::fail(fmt("%s [%s]: scaling the input by %s moves component %d to %s (%.3g ulp from v_i/|v|, allowed 6)", R->name, ntinfo(nt).name, decld(s).c_str(), i, decld(F.out[i]).c_str(), e)); } }
  }
  Verdict V; V.cls = std::string(ntinfo(nt).name) + ";" + real_class((LD)len); int nz = 0; for (int i = 0; i < n; i++) if (E.st[0][i] != 0) nz++; V.nontrivial = nz >= 2; if (nz < 2) V.cls += ";axis-aligned";
  V.show = fmt("%s [%s] %s -> %s", R->name, ntinfo(nt).name, comps_dec(E.st[0], n).c_str(), comps_dec(E.out, n).c_str());
  return V;
}
static Verdict c10_rebuild(const Case& c) {
  const Rebuild& P = g_rebuild[(size_t)c.i[0]]; const int nt = P.nt;
  const VfRelation* M = g_rel[nt][(size_t)P.mag]; const VfRelation* Dr = g_rel[nt][(size_t)P.dir]; const VfRelation* B = g_rel[nt][(size_t)P.build];
  const int n = M->args[0].ncomp;
  Eval Em, Ed, Eb;
  for (int i = 0; i < n; i++) Em.in[0][i] = Ed.in[0][i] = c.r[(size_t)i];
  Em.run(M); Ed.run(Dr);
  const int di = P.dir_first ? 0 : 1;
  for (int i = 0; i < n; i++) Eb.in[di][i] = Ed.out[i];
  Eb.in[1 - di][0] = Em.out[0];
  Eb.run(B);
  const Q len = qnorm(Em.st[0], n);
  if (len == 0) { for (int i = 0; i < n; i++) if (Eb.out[i] != 0) return Verdict::fail(fmt("%s of the zero vector is not zero", B->name)); Verdict V; V.cls = "zero"; return V; }
  for (int i = 0; i < n; i++) {
    const double e = err_ulps(nt, Eb.out[i], (Q)Em.st[0][i], len);
    if (!(e <= 4.0)) return Verdict::fail(fmt("%s [%s]: magnitude x direction of %s gives component %d = %s (%.3g ulp of the length, allowed 4)", B->name, ntinfo(nt).name, comps_dec(Em.st[0], n).c_str(), i, decld(Eb.out[i]).c_str(), e));
  }
  Verdict V; V.cls = std::string(ntinfo(nt).name) + (B->kind == 4 ? ";constructor" : P.dir_first ? ";direction*scalar" : ";scalar*direction"); int nz = 0; for (int i = 0; i < n; i++) if (Em.st[0][i] != 0) nz++; V.nontrivial = nz >= 2;
  return V;
}
static bool distinct_all_impl(const LD* v, int n) { for (int i = 0; i < n; i++) for (int j = i + 1; j < n; j++) if (v[i] == v[j]) return false; return true; }

// ---- C11 ----------------------------------------------------------------------------------------------------
static Q angle_ref(const LD* a, const LD* b, int n) {
  Q x[3] = {0, 0, 0}, y[3] = {0, 0, 0}; for (int i = 0; i < n; i++) { x[i] = a[i]; y[i] = b[i]; }
  // bring both to unit scale by an exact power of two first: binary128 has the exponent range of long double, so products of
  // long double components would overflow / underflow in the reference itself
  auto unit = [](Q* v) { Q m = 0; for (int i = 0; i < 3; i++) if (fabsq(v[i]) > m) m = fabsq(v[i]); if (m == 0) return; int e; frexpq(m, &e); for (int i = 0; i < 3; i++) v[i] = ldexpq(v[i], -e); };
  unit(x); unit(y);
  const Q cx = x[1] * y[2] - x[2] * y[1], cy = x[2] * y[0] - x[0] * y[2], cz = x[0] * y[1] - x[1] * y[0];
  return atan2q(sqrtq(cx * cx + cy * cy + cz * cz), x[0] * y[0] + x[1] * y[1] + x[2] * y[2]);
}
static Verdict c11_angle(const Case& c) {
  const int nt = (int)c.i[0]; const VfRelation* R = g_rel[nt][(size_t)c.i[1]]; const int n = R->args[0].ncomp;
  Eval E; load_operands(R, c, E); E.run(R);
  for (int k = 0; k < 2; k++) { bool z = true; for (int i = 0; i < n; i++) if (E.st[k][i] != 0) z = false; if (z) return Verdict::skip("zero-vector"); }
  const LD th = E.out[0];
  const Q pi = strtoflt128("3.14159265358979323846264338327950288", nullptr);
  auto args = [&]() { return show_args(R, E); };
  if (std::isnan(th)) return Verdict::fail(fmt("%s [%s] is NaN for %s", R->name, ntinfo(nt).name, args().c_str()));
  if (th < 0 || (Q)th > pi + (Q)ulp_at(nt, 3)) return Verdict::fail(fmt("%s [%s] = %s is outside [0, pi] for %s", R->name, ntinfo(nt).name, decld(th).c_str(), args().c_str()));
  const Q ref = angle_ref(E.st[0], E.st[1], n);
  const Q tol = 6 * sqrtq((Q)eps_of(nt));
  if (!(fabsq((Q)th - ref) <= tol)) return Verdict::fail(fmt("%s [%s] = %s but atan2(|a x b|, a.b) = %s (difference %s, allowed 6 sqrt(eps) = %s) for %s", R->name, ntinfo(nt).name, decld(th).c_str(), qstr(ref).c_str(), qstr((Q)th - ref).c_str(), qstr(tol).c_str(), args().c_str()));
  // symmetric in its arguments (same-kind arguments: bit for bit)
  if (!std::strcmp(R->args[0].name, R->args[1].name)) {
    Eval F; for (int i = 0; i < n; i++) { F.in[0][i] = E.in[1][i]; F.in[1][i] = E.in[0][i]; } F.run(R);
    if (!same_bits(nt, F.out[0], th)) return Verdict::fail(fmt("%s [%s] is not symmetric: %s vs %s for %s", R->name, ntinfo(nt).name, hexld(th).c_str(), hexld(F.out[0]).c_str(), args().c_str()));
  }
  // independent of the lengths: exactly for power-of-two factors
  if (R->args[0].kind != 2) {
    const int k1 = (int)c.i[2], k2 = (int)c.i[3];
    Eval F; bool ok = true;
    for (int i = 0; i < n; i++) { F.in[0][i] = std::ldexp(E.st[0][i], k1); F.in[1][i] = std::ldexp(E.st[1][i], k2); }
    for (int k = 0; k < 2; k++) { int e0; std::frexp((LD)qnorm(F.in[k], n), &e0); if (e0 < len_lo(nt) + 2 || e0 > len_hi(nt) - 2) ok = false; for (int i = 0; i < n; i++) if (F.in[k][i] != 0 && std::fabs(F.in[k][i]) < std::ldexp((LD)1, len_lo(nt))) ok = false; }
    for (int k = 0; k < 2; k++) for (int i = 0; i < n; i++) if (E.st[k][i] != 0 && std::fabs(E.st[k][i]) < std::ldexp((LD)1, len_lo(nt))) ok = false;
    if (ok) { F.run(R); if (!same_bits(nt, F.out[0], th)) return Verdict::fail(fmt("%s [%s] depends on the lengths: %s, but %s after scaling the arguments by 2^%d and 2^%d (%s)", R->name, ntinfo(nt).name, hexld(th).c_str(), hexld(F.out[0]).c_str(), k1, k2, args().c_str())); }
  }
  Verdict V; const Q cosv = cosq(ref);
  const bool near = fabsq(cosv) > 1 - ldexpq(1, 10) * (Q)eps_of(nt);
  V.cls = std::string(ntinfo(nt).name) + (near ? (cosv > 0 ? ";nearly-parallel" : ";nearly-antiparallel") : ";generic"); V.nontrivial = near;
  V.show = fmt("%s [%s] %s -> %s", R->name, ntinfo(nt).name, args().c_str(), decld(th).c_str());
  return V;
}
// pairs with emphasis on parallel / antiparallel / nearly so
static rc::Gen<std::vector<LD>> gen_angle_pair(int nt, int n, bool directions) {
  return rc::gen::map(rc::gen::tuple(gen_vector(nt, n, false, 12), gen_vector(nt, n, false, 12), irange(0, 9), gen_real(nt, -6, 6, 0), irange(1, 60), irange(-20, 20)),
                      [=](const std::tuple<std::vector<LD>, std::vector<LD>, int, LD, int, int>& t) {
                        std::vector<LD> a = std::get<0>(t), b = std::get<1>(t); const int mode = std::get<2>(t); const LD kf = std::get<3>(t); const int eps = std::get<4>(t), kp = std::get<5>(t);
                        if (directions) { LD sa = 0; for (LD x : a) sa = std::max(sa, std::fabs(x)); if (sa > 0) for (auto& x : a) x /= sa; LD sb = 0; for (LD x : b) sb = std::max(sb, std::fabs(x)); if (sb > 0) for (auto& x : b) x /= sb; }
                        LD amax = 0; for (LD x : a) amax = std::max(amax, std::fabs(x));
                        auto perp = [&]() { std::vector<LD> p((size_t)n, 0); if (n == 2) { p[0] = -a[1]; p[1] = a[0]; } else { int m = 0; for (int i = 1; i < 3; i++) if (std::fabs(a[(size_t)i]) < std::fabs(a[(size_t)m])) m = i; const int i1 = (m + 1) % 3, i2 = (m + 2) % 3; p[(size_t)i1] = -a[(size_t)i2]; p[(size_t)i2] = a[(size_t)i1]; } return p; };
                        if (mode <= 1) { for (int i = 0; i < n; i++) b[(size_t)i] = round_to(nt, a[(size_t)i] * (mode == 0 ? kf : -kf)); }                            // b = +-k a, arbitrary k
                        else if (mode <= 3) { for (int i = 0; i < n; i++) b[(size_t)i] = std::ldexp(mode == 2 ? a[(size_t)i] : -a[(size_t)i], directions ? 0 : std::max(-8, std::min(8, kp))); }   // b = +-2^k a
                        else if (mode <= 6) { auto p = perp(); for (int i = 0; i < n; i++) b[(size_t)i] = round_to(nt, (mode == 6 ? -1 : 1) * a[(size_t)i] * kf + std::ldexp(p[(size_t)i], -eps)); }    // nearly (anti)parallel
                        else if (mode == 7) { auto p = perp(); b = p; }                                                                                                  // perpendicular
                        (void)amax;
                        std::vector<LD> v = a; v.insert(v.end(), b.begin(), b.end()); return v;
                      });
}

// ================================================================================================ C18: named physical definitions
// A fixed table written from textbooks: relation name -> reference formula in __float128 with the magnitude that sets the allowed rounding
// (products, quotients, roots: |exact|; sums: the sum of |terms|; formulas with an inner difference: amplified accordingly).
struct Def { const char* name; std::function<void(const Q* const* a, Q* out, Q* mag)> ref; };
static void scalar_def(Q v, Q* out, Q* mag) { out[0] = v; mag[0] = fabsq(v); }
static std::vector<Def> make_defs() {
  std::vector<Def> d;
  auto S = [&](const char* n, std::function<Q(const Q* const*)> f) { d.push_back({n, [f](const Q* const* a, Q* out, Q* mag) { scalar_def(f(a), out, mag); }}); };
  auto Sum = [&](const char* n, int sign) { d.push_back({n, [sign](const Q* const* a, Q* out, Q* mag) { out[0] = a[0][0] + sign * a[1][0]; mag[0] = fabsq(a[0][0]) + fabsq(a[1][0]); }}); };
#define A(i) (a[i][0])
  S("DynamicPressure(MassDensity,Speed)", [](const Q* const* a) { return A(0) * A(1) * A(1) / 2; });
  S("Speed(DynamicPressure,MassDensity)", [](const Q* const* a) { return sqrtq(2 * A(0) / A(1)); });
  S("MassDensity(DynamicPressure,Speed)", [](const Q* const* a) { return 2 * A(0) / (A(1) * A(1)); });
  S("DynamicKinematicPressure(Speed)", [](const Q* const* a) { return A(0) * A(0) / 2; });
  S("Speed(DynamicKinematicPressure)", [](const Q* const* a) { return sqrtq(2 * A(0)); });
  S("DynamicKinematicPressure(DynamicPressure,MassDensity)", [](const Q* const* a) { return A(0) / A(1); });
  S("DynamicPressure(MassDensity,DynamicKinematicPressure)", [](const Q* const* a) { return A(0) * A(1); });
  Sum("TotalPressure(StaticPressure,DynamicPressure)", +1); Sum("StaticPressure(TotalPressure,DynamicPressure)", -1); Sum("DynamicPressure(TotalPressure,StaticPressure)", -1);
  Sum("StaticPressure + DynamicPressure", +1); Sum("DynamicPressure + StaticPressure", +1); Sum("TotalPressure - DynamicPressure", -1); Sum("TotalPressure - StaticPressure", -1);
  Sum("TotalKinematicPressure(StaticKinematicPressure,DynamicKinematicPressure)", +1); Sum("StaticKinematicPressure(TotalKinematicPressure,DynamicKinematicPressure)", -1);
  Sum("DynamicKinematicPressure(TotalKinematicPressure,StaticKinematicPressure)", -1);
  S("TotalKinematicPressure(TotalPressure,MassDensity)", [](const Q* const* a) { return A(0) / A(1); }); S("TotalPressure(MassDensity,TotalKinematicPressure)", [](const Q* const* a) { return A(0) * A(1); });
  S("StaticKinematicPressure(StaticPressure,MassDensity)", [](const Q* const* a) { return A(0) / A(1); }); S("StaticPressure(MassDensity,StaticKinematicPressure)", [](const Q* const* a) { return A(0) * A(1); });
  S("SoundSpeed(IsentropicBulkModulus,MassDensity)", [](const Q* const* a) { return sqrtq(A(0) / A(1)); });
  S("SoundSpeed(HeatCapacityRatio,StaticPressure,MassDensity)", [](const Q* const* a) { return sqrtq(A(0) * A(1) / A(2)); });
  S("SoundSpeed(HeatCapacityRatio,SpecificGasConstant,Temperature)", [](const Q* const* a) { return sqrtq(A(0) * A(1) * A(2)); });
  S("MassDensity(IsentropicBulkModulus,SoundSpeed)", [](const Q* const* a) { return A(0) / (A(1) * A(1)); }); S("IsentropicBulkModulus(MassDensity,SoundSpeed)", [](const Q* const* a) { return A(0) * A(1) * A(1); });
  S("MachNumber(Speed,SoundSpeed)", [](const Q* const* a) { return A(0) / A(1); }); S("Speed(SoundSpeed,MachNumber)", [](const Q* const* a) { return A(0) * A(1); }); S("SoundSpeed(Speed,MachNumber)", [](const Q* const* a) { return A(0) / A(1); });
  S("Speed / SoundSpeed", [](const Q* const* a) { return A(0) / A(1); });
  S("ReynoldsNumber(MassDensity,Speed,Length,DynamicViscosity)", [](const Q* const* a) { return A(0) * A(1) * A(2) / A(3); });
  S("ReynoldsNumber(Speed,Length,KinematicViscosity)", [](const Q* const* a) { return A(0) * A(1) / A(2); });
  S("MassDensity(ReynoldsNumber,DynamicViscosity,Speed,Length)", [](const Q* const* a) { return A(0) * A(1) / (A(2) * A(3)); });
  S("Speed(ReynoldsNumber,DynamicViscosity,MassDensity,Length)", [](const Q* const* a) { return A(0) * A(1) / (A(2) * A(3)); });
  S("Length(ReynoldsNumber,DynamicViscosity,MassDensity,Speed)", [](const Q* const* a) { return A(0) * A(1) / (A(2) * A(3)); });
  S("DynamicViscosity(MassDensity,Speed,Length,ReynoldsNumber)", [](const Q* const* a) { return A(0) * A(1) * A(2) / A(3); });
  S("KinematicViscosity(Speed,Length,ReynoldsNumber)", [](const Q* const* a) { return A(0) * A(1) / A(2); });
  S("Speed(ReynoldsNumber,KinematicViscosity,Length)", [](const Q* const* a) { return A(0) * A(1) / A(2); });
  S("Length(ReynoldsNumber,KinematicViscosity,Speed)", [](const Q* const* a) { return A(0) * A(1) / A(2); });
  S("PrandtlNumber(SpecificIsobaricHeatCapacity,DynamicViscosity,ScalarThermalConductivity)", [](const Q* const* a) { return A(0) * A(1) / A(2); });
  S("PrandtlNumber(KinematicViscosity,ThermalDiffusivity)", [](const Q* const* a) { return A(0) / A(1); });
  S("KinematicViscosity(PrandtlNumber,ThermalDiffusivity)", [](const Q* const* a) { return A(0) * A(1); }); S("ThermalDiffusivity(KinematicViscosity,PrandtlNumber)", [](const Q* const* a) { return A(0) / A(1); });
  S("DynamicViscosity(PrandtlNumber,ScalarThermalConductivity,SpecificIsobaricHeatCapacity)", [](const Q* const* a) { return A(0) * A(1) / A(2); });
  S("ScalarThermalConductivity(SpecificIsobaricHeatCapacity,DynamicViscosity,PrandtlNumber)", [](const Q* const* a) { return A(0) * A(1) / A(2); });
  S("SpecificIsobaricHeatCapacity(PrandtlNumber,ScalarThermalConductivity,DynamicViscosity)", [](const Q* const* a) { return A(0) * A(1) / A(2); });
  S("HeatCapacityRatio(IsobaricHeatCapacity,IsochoricHeatCapacity)", [](const Q* const* a) { return A(0) / A(1); });
  S("HeatCapacityRatio(SpecificIsobaricHeatCapacity,SpecificIsochoricHeatCapacity)", [](const Q* const* a) { return A(0) / A(1); });
  S("IsobaricHeatCapacity / IsochoricHeatCapacity", [](const Q* const* a) { return A(0) / A(1); }); S("SpecificIsobaricHeatCapacity / SpecificIsochoricHeatCapacity", [](const Q* const* a) { return A(0) / A(1); });
  Sum("GasConstant(IsobaricHeatCapacity,IsochoricHeatCapacity)", -1); Sum("SpecificGasConstant(SpecificIsobaricHeatCapacity,SpecificIsochoricHeatCapacity)", -1);
  Sum("IsobaricHeatCapacity - IsochoricHeatCapacity", -1); Sum("SpecificIsobaricHeatCapacity - SpecificIsochoricHeatCapacity", -1);
  // gamma = cp/(cp - R) = (R + cv)/cv ;  R = cp (gamma - 1)/gamma = cv (gamma - 1): inner differences amplify the rounding of the operands
  auto Amp = [&](const char* n, std::function<Q(const Q* const*)> f, std::function<Q(const Q* const*)> amp) { d.push_back({n, [f, amp](const Q* const* a, Q* out, Q* mag) { out[0] = f(a); mag[0] = fabsq(out[0]) * amp(a); }}); };
  for (const char* n : {"HeatCapacityRatio(IsobaricHeatCapacity,GasConstant)", "HeatCapacityRatio(SpecificIsobaricHeatCapacity,SpecificGasConstant)"})
    Amp(n, [](const Q* const* a) { return A(0) / (A(0) - A(1)); }, [](const Q* const* a) { return (fabsq(A(0)) + fabsq(A(1))) / fabsq(A(0) - A(1)); });
  for (const char* n : {"HeatCapacityRatio(GasConstant,IsochoricHeatCapacity)", "HeatCapacityRatio(SpecificGasConstant,SpecificIsochoricHeatCapacity)"})
    Amp(n, [](const Q* const* a) { return (A(0) + A(1)) / A(1); }, [](const Q* const*) { return (Q)1; });
  for (const char* n : {"GasConstant(HeatCapacityRatio,IsobaricHeatCapacity)", "SpecificGasConstant(HeatCapacityRatio,SpecificIsobaricHeatCapacity)"})
    Amp(n, [](const Q* const* a) { return A(1) * (A(0) - 1) / A(0); }, [](const Q* const* a) { return (fabsq(A(0)) + 1) / fabsq(A(0) - 1); });
  for (const char* n : {"GasConstant(HeatCapacityRatio,IsochoricHeatCapacity)", "SpecificGasConstant(HeatCapacityRatio,SpecificIsochoricHeatCapacity)"})
    Amp(n, [](const Q* const* a) { return A(1) * (A(0) - 1); }, [](const Q* const* a) { return (fabsq(A(0)) + 1) / fabsq(A(0) - 1); });
  S("ThermalDiffusivity(ScalarThermalConductivity,MassDensity,SpecificIsobaricHeatCapacity)", [](const Q* const* a) { return A(0) / (A(1) * A(2)); });
  S("MassDensity(ScalarThermalConductivity,ThermalDiffusivity,SpecificIsobaricHeatCapacity)", [](const Q* const* a) { return A(0) / (A(1) * A(2)); });
  S("ScalarThermalConductivity(MassDensity,SpecificIsobaricHeatCapacity,ThermalDiffusivity)", [](const Q* const* a) { return A(0) * A(1) * A(2); });
  S("SpecificIsobaricHeatCapacity(ScalarThermalConductivity,MassDensity,ThermalDiffusivity)", [](const Q* const* a) { return A(0) / (A(1) * A(2)); });
  S("KinematicViscosity(DynamicViscosity,MassDensity)", [](const Q* const* a) { return A(0) / A(1); }); S("MassDensity(DynamicViscosity,KinematicViscosity)", [](const Q* const* a) { return A(0) / A(1); });
  S("DynamicViscosity / MassDensity", [](const Q* const* a) { return A(0) / A(1); });
  S("Time(Frequency)", [](const Q* const* a) { return 1 / A(0); }); S("Frequency(Time)", [](const Q* const* a) { return 1 / A(0); }); S("Frequency.Period()", [](const Q* const* a) { return 1 / A(0); }); S("Time.Frequency()", [](const Q* const* a) { return 1 / A(0); });
  S("ScalarStrain(LinearThermalExpansionCoefficient,TemperatureDifference)", [](const Q* const* a) { return A(0) * A(1); });
#undef A
  auto sym = [](const Q* const* a, Q* out, Q* mag) {
    const Q* g = a[0]; static const int i1[6] = {0, 1, 2, 4, 5, 8}, i2[6] = {0, 3, 6, 4, 7, 8};
    for (int k = 0; k < 6; k++) { out[k] = (g[i1[k]] + g[i2[k]]) / 2; mag[k] = (fabsq(g[i1[k]]) + fabsq(g[i2[k]])) / 2; }
  };
  for (const char* n : {"Strain(DisplacementGradient)", "StrainRate(VelocityGradient)", "DisplacementGradient.Strain()", "VelocityGradient.StrainRate()"}) d.push_back({n, sym});
  d.push_back({"Strain(VolumetricThermalExpansionCoefficient,TemperatureDifference)", [](const Q* const* a, Q* out, Q* mag) { const Q v = a[0][0] * a[1][0] / 3; const Q o[6] = {v, 0, 0, v, 0, v}; for (int k = 0; k < 6; k++) { out[k] = o[k]; mag[k] = fabsq(o[k]); } }});
  d.push_back({"Stress(StaticPressure)", [](const Q* const* a, Q* out, Q* mag) { const Q v = -a[0][0]; const Q o[6] = {v, 0, 0, v, 0, v}; for (int k = 0; k < 6; k++) { out[k] = o[k]; mag[k] = fabsq(o[k]); } }});
  d.push_back({"Stress.VonMises()", [](const Q* const* a, Q* out, Q* mag) {
                 const Q* s = a[0]; const Q xx = s[0], xy = s[1], xz = s[2], yy = s[3], yz = s[4], zz = s[5];
                 const Q S2 = ((xx - yy) * (xx - yy) + (yy - zz) * (yy - zz) + (zz - xx) * (zz - xx)) / 2 + 3 * (xy * xy + xz * xz + yz * yz);
                 auto ab = [](Q x) { return fabsq(x); };
                 const Q Sabs = ((ab(xx) + ab(yy)) * (ab(xx) + ab(yy)) + (ab(yy) + ab(zz)) * (ab(yy) + ab(zz)) + (ab(zz) + ab(xx)) * (ab(zz) + ab(xx))) / 2 + 3 * (xy * xy + xz * xz + yz * yz);
                 // in the textbook (difference) form each difference is rounded once, relative to itself, and everything after it is a sum of
                 // non-negative terms: the error is a few ulp of the RESULT, however close the normal stresses are to each other
                 (void)Sabs; out[0] = sqrtq(S2); mag[0] = out[0]; }});
  auto traction = [](const Q* const* a, Q* out, Q* mag) {
    const Q* s = a[0]; const Q* n = a[1]; static const int m[3][3] = {{0, 1, 2}, {1, 3, 4}, {2, 4, 5}};
    for (int i = 0; i < 3; i++) { out[i] = 0; mag[i] = 0; for (int j = 0; j < 3; j++) { out[i] += s[m[i][j]] * n[j]; mag[i] += fabsq(s[m[i][j]] * n[j]); } }
  };
  auto ptraction = [](const Q* const* a, Q* out, Q* mag) {   // planar traction: the in-plane part of sigma . (nx, ny, 0)
    const Q* s = a[0]; const Q* n = a[1]; static const int m[2][2] = {{0, 1}, {1, 3}};
    for (int i = 0; i < 2; i++) { out[i] = 0; mag[i] = 0; for (int j = 0; j < 2; j++) { out[i] += s[m[i][j]] * n[j]; mag[i] += fabsq(s[m[i][j]] * n[j]); } }
  };
  d.push_back({"PlanarTraction(Stress,PlanarDirection)", ptraction}); d.push_back({"Stress.PlanarTraction(PlanarDirection)", ptraction});
  d.push_back({"Traction(Stress,Direction)", traction}); d.push_back({"Stress.Traction(Direction)", traction}); d.push_back({"Stress * Direction", traction});
  return d;
}
static std::vector<Def> g_defs;
struct DefInst { int nt; int def; int rel; };
static std::vector<DefInst> g_definst;
static std::vector<std::string> g_absent;
static void find_defs() {
  g_defs = make_defs();
  for (size_t k = 0; k < g_defs.size(); k++) {
    bool any = false;
    for (int nt = 0; nt < 3; nt++) for (size_t i = 0; i < g_rel[nt].size(); i++) if (!std::strcmp(g_rel[nt][i]->name, g_defs[k].name)) { g_definst.push_back({nt, (int)k, (int)i}); any = true; }
    if (!any) g_absent.push_back(g_defs[k].name);
  }
}
static Verdict c18_def(const Case& c) {
  const DefInst& I = g_definst[(size_t)c.i[0]]; const int nt = I.nt; const VfRelation* R = g_rel[nt][(size_t)I.rel];
  Eval E; load_operands(R, c, E); E.run(R);
  Q args[9][9]; const Q* ap[9]; for (int k = 0; k < R->nargs; k++) { for (int j = 0; j < 9; j++) args[k][j] = E.st[k][j]; ap[k] = args[k]; }
  Q ref[9], mag[9]; for (int j = 0; j < 9; j++) { ref[j] = 0; mag[j] = 0; }
  g_defs[(size_t)I.def].ref(ap, ref, mag);
  for (int j = 0; j < R->res.ncomp; j++) if (!finiteq(ref[j])) return Verdict::skip("reference-not-finite");
  for (int j = 0; j < R->res.ncomp; j++) {
    if (mag[j] == 0) { if (E.out[j] != 0) return Verdict::fail(fmt("%s [%s]: component %d is %s, the definition gives 0 (operands %s)", R->name, ntinfo(nt).name, j, decld(E.out[j]).c_str(), show_args(R, E).c_str())); continue; }
    if (fabsq(mag[j]) < ldexpq(1, ntinfo(nt).emin + 4) || fabsq(mag[j]) > ldexpq(1, ntinfo(nt).emax - 4)) return Verdict::skip("out-of-normal-range");
    const double e = err_ulps(nt, E.out[j], ref[j], mag[j]);
    if (!(e <= 4.0)) return Verdict::fail(fmt("%s [%s]: component %d is %s, the textbook formula gives %s (%.4g ulp, allowed 4); operands %s", R->name, ntinfo(nt).name, j, decld(E.out[j]).c_str(), qstr(ref[j]).c_str(), e, show_args(R, E).c_str()));
  }
  Verdict V; V.cls = ntinfo(nt).name; V.nontrivial = true; for (int k = 0; k < R->nargs; k++) if (R->args[k].ncomp == 1 && (E.st[k][0] == 1 || E.st[k][0] == 0)) V.nontrivial = false;
  V.show = fmt("%s [%s] %s -> %s", R->name, ntinfo(nt).name, show_args(R, E).c_str(), comps_dec(E.out, R->res.ncomp).c_str());
  return V;
}

// ================================================================================================
int main(int argc, char** argv) {
  load();
  for (int nt = 0; nt < 3; nt++) for (size_t i = 0; i < g_rel[nt].size(); i++) {
    g_all.push_back({nt, (int)i});
    const int k = g_rel[nt][i]->kind;
    if (k <= 3 || k >= 7) g_ops.push_back({nt, (int)i});
  }
  for (int nt = 0; nt < 3; nt++) for (size_t i = 0; i < g_cmp[nt].size(); i++) g_cmpall.push_back({nt, (int)i});
  for (int nt = 0; nt < 3; nt++) for (size_t i = 0; i < g_std[nt].size(); i++) g_stdall.push_back({nt, (int)i});
  find_twins(); find_pairs(); find_c10(); find_defs();
  if (argc > 1 && std::string(argv[1]) == "inventory") {
    std::map<int, int> kinds; for (auto* r : g_rel[1]) kinds[r->kind]++;
    for (auto& kv : kinds) std::printf("kind %d: %d\n", kv.first, kv.second);
    std::printf("compound histories: %zu types, std rows %zu, twins %zu (all nt), inverse pairs %zu (all nt)\n", g_cmp[1].size(), g_std[1].size(), g_twins.size(), g_pairs.size());
    if (argc > 2) { for (auto& p : g_pairs) if (p.nt == 1) std::printf("PAIR %s  ->  %s  (solve for arg %d)\n", g_rel[1][(size_t)p.r1]->name, g_rel[1][(size_t)p.r2]->name, p.target);
      for (auto& t : g_twins) if (t.nt == 1) std::printf("TWIN %s == %s%s\n", g_rel[1][(size_t)t.ctor]->name, g_rel[1][(size_t)t.op]->name, t.swapped ? " (swapped)" : "");
      for (auto* r : g_rel[1]) std::printf("REL %d %s -> %s\n", r->kind, r->name, r->res.name); }
    return 0;
  }
  auto rname = [](const std::vector<Ref>& v) { return [&v](int inst) { return std::string(g_rel[v[(size_t)inst].nt][(size_t)v[(size_t)inst].idx]->name) + "/" + ntinfo(v[(size_t)inst].nt).name; }; };
  std::vector<Sub> subs;
  {
    Sub s; s.name = "c03.types"; s.property = "C03"; s.instances = (int)g_ops.size(); s.n_quick = 1; s.n_thorough = 1; s.exhaustive = true;
    s.gen = [](int inst) { Case c; c.i = {g_ops[(size_t)inst].nt, g_ops[(size_t)inst].idx}; return rc::gen::just(c); };
    s.run = c03_types; s.instance_name = rname(g_ops);
    s.rule = "exhaustive: every operator instance found by SFINAE over all ordered pairs of quantity types (and plain numbers): declared dimension set of the result = sum / difference / equal";
    subs.push_back(s);
  }
  {
    Sub s; s.name = "c03.scaling"; s.property = "C03"; s.instances = (int)g_all.size(); s.n_quick = 150; s.n_thorough = 3000; s.gen = gen_c03; s.run = c03_scaling; s.instance_name = rname(g_all);
    s.rule = "enumerated: every operator, compound assignment, constructor (1,2,3,4,6,9 arguments) and member relation x 3 numeric types; generated: operand components (both signs; half the cases all-positive) and an independent rescaling "
             "of the seven base units by 4^k (k in [-4,4]; float [-1,1]); oracle: f(s(A)a, s(B)b, ...) = s(C) f(a, b, ...) with s from the DECLARED dimension sets, exact for power-of-two factors (2 ulp allowance for pow/acos); "
             "non-trivial: some scale factor != 1 and result != 0";
    subs.push_back(s);
  }
  {
    Sub s; s.name = "c04.operators"; s.property = "C04"; s.instances = (int)g_ops.size(); s.n_quick = 200; s.n_thorough = 5000; s.gen = gen_c04; s.run = c04_operator; s.instance_name = rname(g_ops);
    s.rule = "every operator and compound-assignment instance x 3 numeric types; operands of both signs with unrelated mantissas; oracle: component-wise IEEE operation of the same numeric type on the stored values in written order, "
             "bit equality (contractions: textbook formula within 2 ulp of sum |terms|); compound assignment equals its pure operator bit for bit; non-trivial: operands differ, none is 0 or 1";
    subs.push_back(s);
  }
  {
    Sub s; s.name = "c04.twin"; s.property = "C04"; s.instances = (int)g_twins.size(); s.n_quick = 200; s.n_thorough = 5000; s.run = c04_twin;
    s.gen = [](int inst) { const Twin& t = g_twins[(size_t)inst]; const VfRelation* C = g_rel[t.nt][(size_t)t.ctor]; const int w = t.nt == 0 ? 12 : 60;
      return rc::gen::map(gen_reals(total_comps(C), t.nt, -w, w, kNeg), [=](const std::vector<LD>& v) { Case c; c.i = {inst}; c.r = v; return c; }); };
    s.instance_name = [](int inst) { const Twin& t = g_twins[(size_t)inst]; return std::string(g_rel[t.nt][(size_t)t.ctor]->name) + "==" + g_rel[t.nt][(size_t)t.op]->name; };
    s.rule = "every two-argument constructor C(A,B) for which an operator A op B -> C or B op A -> C exists: identical bits; non-trivial: no operand component is 0 or 1";
    subs.push_back(s);
  }
  {
    Sub s; s.name = "c04.history"; s.property = "C04"; s.instances = (int)g_cmpall.size(); s.n_quick = 300; s.n_thorough = 6000; s.gen = gen_c04_history; s.run = c04_history;
    s.instance_name = [](int inst) { return std::string(g_cmp[g_cmpall[(size_t)inst].nt][(size_t)g_cmpall[(size_t)inst].idx]->name) + "/" + ntinfo(g_cmpall[(size_t)inst].nt).name; };
    s.rule = "histories of 1..24 compound assignments (+= q, -= q, *= n, /= n, and with the object as its own operand: x += x, x -= x, self copy-assignment, move-assignment from a copy; any interleaving) on every quantity type that has all four: compared after every step, bit for bit, with a plain array updated by the IEEE operator and "
             "with the chain of pure operators x = x op y; non-trivial: at least one additive and one multiplicative step";
    subs.push_back(s);
  }
  {
    Sub s; s.name = "c04.std"; s.property = "C04"; s.instances = (int)g_stdall.size(); s.n_quick = 500; s.n_thorough = 10000; s.run = c04_std;
    s.gen = [](int inst) { const Ref rf = g_stdall[(size_t)inst];
      return rc::gen::map(rc::gen::tuple(gen_real(rf.nt, -10, 10, kNeg | kZero), gen_real(rf.nt, -3, 3, kNeg | kZero), irange(0, 3)), [=](const std::tuple<LD, LD, int>& t) { Case c; c.i = {rf.nt, rf.idx, std::get<2>(t)}; c.r = {std::get<0>(t), std::get<1>(t)}; return c; }); };
    s.instance_name = [](int inst) { const VfStdFn* f = g_std[g_stdall[(size_t)inst].nt][(size_t)g_stdall[(size_t)inst].idx]; return std::string(f->qname) + "." + f->fname; };
    s.rule = "abs, cbrt, exp, log, log2, log10, sqrt, pow (float/double/long double/int exponents) overloaded for every dimensionless scalar quantity type: bit-equal to the same std function of the stored number; non-trivial: value not 0 or 1";
    subs.push_back(s);
  }
  {
    Sub s; s.name = "c05.inverse"; s.property = "C05"; s.instances = (int)g_pairs.size(); s.n_quick = 150; s.n_thorough = 4000; s.gen = gen_c05; s.run = c05_pair;
    s.instance_name = [](int inst) { const Pair& p = g_pairs[(size_t)inst]; return std::string(g_rel[p.nt][(size_t)p.r1]->name) + " -> " + g_rel[p.nt][(size_t)p.r2]->name + "/" + ntinfo(p.nt).name; };
    s.rule = "pairs derived from the declared signatures: constructor/member C(..A..) with A(..C..) over the same remaining arguments (1 to 4 arguments), operator pairs by algebra (a+b<->c-b, a*b<->c/b, a/b<->c*b, and the forms solving "
             "for b), one-argument pairs of equal shape and the planar embedding 2-D -> 3-D -> 2-D (bit-exact); positive finite scalar operands over many binades; oracle: A(C(a,b..),b..) = a within 4(1+kappa) ulp with kappa = k2 + kc the measured "
             "amplification of one-ulp perturbations (kc: of the intermediate, k2: of the other arguments of the inverse; the forward relation must deliver its result to a few ulps - no allowance for mere backward stability); non-trivial: kappa <= 16";
    subs.push_back(s);
  }
  auto vgen = [](const std::vector<Ref>& L, bool zero_ok, int extra_i, bool with_scale) {
    return [&L, zero_ok, extra_i, with_scale](int inst) { const Ref rf = L[(size_t)inst]; const VfRelation* R = g_rel[rf.nt][(size_t)rf.idx]; const int n = R->args[0].ncomp, nt = rf.nt;
      return rc::gen::map(rc::gen::tuple(gen_vector(nt, n, zero_ok), irange(-30, 30), gen_real(nt, -3, 3, 0)), [=](const std::tuple<std::vector<LD>, int, LD>& t) { Case c; c.i = {nt, rf.idx}; if (extra_i) c.i.push_back(std::get<1>(t)); c.r = std::get<0>(t); if (with_scale) c.r.push_back(std::get<2>(t)); return c; }); }; };
  {
    Sub s; s.name = "c10.magnitude"; s.property = "C10"; s.instances = (int)g_mag.size(); s.n_quick = 2000; s.n_thorough = 40000; s.gen = vgen(g_mag, true, 0, false); s.run = c10_magnitude; s.instance_name = rname(g_mag);
    s.rule = "Magnitude() of every vector quantity type (2-D and 3-D) x 3 numeric types: result type is the scalar quantity with the same declared dimensions, value within 3 ulp of the Euclidean norm in __float128; vectors = random "
             "orientation x length over the whole range in which the squared length neither overflows nor underflows (guard band min_normal 2^(p+2)), axis-aligned, two-axis, near-degenerate, zero; non-trivial: >= 2 non-zero components";
    subs.push_back(s);
  }
  {
    Sub s; s.name = "c10.components"; s.property = "C10"; s.instances = (int)g_comp.size(); s.n_quick = 100; s.n_thorough = 2000; s.run = c10_component; s.instance_name = rname(g_comp);
    s.gen = [](int inst) { const Ref rf = g_comp[(size_t)inst]; const VfRelation* R = g_rel[rf.nt][(size_t)rf.idx]; return rc::gen::map(gen_reals(R->args[0].ncomp, rf.nt, -30, 30, kNeg | kZero), [=](const std::vector<LD>& v) { Case c; c.i = {rf.nt, rf.idx}; c.r = v; return c; }); };
    s.rule = "typed component accessors x(), y(), z(), xx() ... of every vector / tensor quantity: bit-equal to the stored component of that name, typed as the scalar quantity of the same dimensions; non-trivial: components pairwise distinct";
    subs.push_back(s);
  }
  {
    Sub s; s.name = "c10.direction"; s.property = "C10"; s.instances = (int)g_dirrel.size(); s.n_quick = 2000; s.n_thorough = 40000; s.gen = vgen(g_dirrel, true, 1, true); s.run = c10_direction; s.instance_name = rname(g_dirrel);
    s.rule = "Direction / PlanarDirection built from every vector quantity (constructor and q.Direction() member): length 1 within 4 ulp, each component within 4 ulp of v_i/|v| (parallel, same way), bit-identical after scaling the input by 2^k, "
             "within 6 ulp after scaling by an arbitrary positive factor, zero vector -> exactly (+0,+0,+0); non-trivial: >= 2 non-zero components";
    subs.push_back(s);
  }
  {
    Sub s; s.name = "c10.rebuild"; s.property = "C10"; s.instances = (int)g_rebuild.size(); s.n_quick = 1000; s.n_thorough = 20000; s.run = c10_rebuild;
    s.gen = [](int inst) { const Rebuild& P = g_rebuild[(size_t)inst]; const int n = g_rel[P.nt][(size_t)P.mag]->args[0].ncomp; return rc::gen::map(gen_vector(P.nt, n, true), [=](const std::vector<LD>& v) { Case c; c.i = {inst}; c.r = v; return c; }); };
    s.instance_name = [](int inst) { const Rebuild& P = g_rebuild[(size_t)inst]; return std::string(g_rel[P.nt][(size_t)P.build]->name) + "/" + ntinfo(P.nt).name; };
    s.rule = "q.Magnitude() x q.Direction() through Q(scalar, direction), scalar * direction and direction * scalar reconstructs q within 4 ulp of |q| per component, for all 17 vector quantity types; non-trivial: >= 2 non-zero components";
    subs.push_back(s);
  }
  {
    Sub s; s.name = "c11.quantity"; s.property = "C11"; s.instances = (int)g_angle.size(); s.n_quick = 2000; s.n_thorough = 40000; s.run = c11_angle; s.instance_name = rname(g_angle);
    s.gen = [](int inst) { const Ref rf = g_angle[(size_t)inst]; const VfRelation* R = g_rel[rf.nt][(size_t)rf.idx]; const int n = R->args[0].ncomp, nt = rf.nt; const bool dir = R->args[0].kind == 2;
      return rc::gen::map(rc::gen::tuple(gen_angle_pair(nt, n, dir), irange(-40, 40), irange(-40, 40)), [=](const std::tuple<std::vector<LD>, int, int>& t) { Case c; c.i = {nt, rf.idx, std::get<1>(t), std::get<2>(t)}; c.r = std::get<0>(t); return c; }); };
    s.rule = "every quantity-level angle relation (Angle(A,B) constructors and a.Angle(b) members for the 17 vector quantity types, Direction and PlanarDirection) x 3 numeric types; pairs b = +-k a (k arbitrary and power of two), "
             "b = +-k a + 2^-e a_perp (e = 1..60), perpendicular and independent pairs, lengths over the non-overflowing range; oracle: not NaN, in [0, pi], bit-symmetric, bit-invariant under power-of-two rescaling of either argument, "
             "|theta - atan2(|a x b|, a.b)| <= 6 sqrt(eps) in __float128; non-trivial: |cos theta| > 1 - 2^10 eps";
    subs.push_back(s);
  }
  {
    Sub s; s.name = "c18.definitions"; s.property = "C18"; s.instances = (int)g_definst.size(); s.n_quick = 2000; s.n_thorough = 40000; s.run = c18_def;
    s.gen = [](int inst) { const DefInst& I = g_definst[(size_t)inst]; const VfRelation* R = g_rel[I.nt][(size_t)I.rel]; const int n = total_comps(R), nt = I.nt; const int w = wide_window(nt, R->nargs);
      return rc::gen::map(rc::gen::tuple(gen_reals(n, nt, -w, w, kNeg), irange(0, 2), irange(4, 40)), [=](const std::tuple<std::vector<LD>, int, int>& t) {
        Case c; c.i = {inst}; c.r = std::get<0>(t); size_t p = 0;
        for (int a = 0; a < R->nargs; a++) {
          // symmetric tensors: one third of the cases nearly isotropic (normal components equal up to 2^-j, small shear) - where expanded forms of the invariants cancel
          if (R->args[a].ncomp == 6 && std::get<1>(t) == 0) { const LD m = c.r[p], d = std::ldexp(m, -std::get<2>(t)); c.r[p + 3] = round_to(nt, m + d * (c.r[p + 3] < 0 ? -1 : 1)); c.r[p + 5] = round_to(nt, m - d / 2);
            c.r[p + 1] = std::ldexp(c.r[p + 1] == 0 ? m : c.r[p + 1], 0) ; c.r[p + 1] = round_to(nt, d * 0.3L); c.r[p + 2] = round_to(nt, -d * 0.2L); c.r[p + 4] = round_to(nt, d * 0.1L); }
          for (int j = 0; j < R->args[a].ncomp; j++, p++) if (R->args[a].ncomp == 1) c.r[p] = std::fabs(c.r[p]);
        }
        return c; }); };
    s.instance_name = [](int inst) { const DefInst& I = g_definst[(size_t)inst]; return std::string(g_defs[(size_t)I.def].name) + "/" + ntinfo(I.nt).name; };
    s.rule = "a fixed table of textbook definitions (q = rho v^2/2 and its inverses, v^2/2, total = static + dynamic pressure in all arrangements, a = sqrt(K/rho) = sqrt(gamma p/rho) = sqrt(gamma R T), Ma, Re and Pr in every solved form, "
             "gamma = cp/cv, R = cp - cv (extensive and specific), alpha = k/(rho cp), nu = mu/rho, T = 1/f, sym(grad u), sym(grad v), alpha dT, (beta dT/3) I, von Mises, sigma.n, -p I), each looked up by name in the relation registry "
             "(absent rows are listed, not failed); positive finite scalar operands over +-30 binades (tensors: both signs); oracle: __float128 formula within 4 ulp (sums: of the sum of |terms|); non-trivial: no operand is 0 or 1";
    subs.push_back(s);
    for (auto& a : g_absent) ev().notes.push_back("c18: relation not present in this tree: " + a);
  }
  return engine_main(argc, argv, subs);
}
