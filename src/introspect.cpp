// Dumps what the library *answers at run time* about its enumerations, tables, dimension sets and
// unit systems as JSON (stdout).  Evaluated exactly by tools/symx.py against the unit lexicon.
// Every table access is guarded with count()/find() so that a missing row is reported, not UB.
#include "units.inc"
#include "quantities.inc"
#include <cstdio>
#include <iostream>
#include <sstream>
#include <string>
#include <vector>

using namespace PhQ;

// JSON string body: always valid UTF-8 (a table entry that is not - e.g. a dangling string_view - is dumped with U+FFFD for every offending byte, so that the
// table checks can still run and report it)
static std::string jesc(std::string_view s) {
  std::string o;
  for (std::size_t i = 0; i < s.size();) {
    const unsigned char c = (unsigned char)s[i];
    if (c < 0x80) {
      if (c == '"') o += "\\\""; else if (c == '\\') o += "\\\\"; else if (c == '\n') o += "\\n";
      else if (c < 0x20 || c == 0x7f) { char b[8]; std::snprintf(b, sizeof b, "\\u%04x", c); o += b; } else o += (char)c;
      i++; continue;
    }
    const int len = (c >= 0xc2 && c <= 0xdf) ? 2 : (c >= 0xe0 && c <= 0xef) ? 3 : (c >= 0xf0 && c <= 0xf4) ? 4 : 0;
    bool ok = len != 0 && i + (std::size_t)len <= s.size();
    for (int k = 1; ok && k < len; k++) if (((unsigned char)s[i + (std::size_t)k] & 0xc0) != 0x80) ok = false;
    if (ok && len == 3) { const unsigned char d = (unsigned char)s[i + 1]; if ((c == 0xe0 && d < 0xa0) || (c == 0xed && d > 0x9f)) ok = false; }
    if (ok && len == 4) { const unsigned char d = (unsigned char)s[i + 1]; if ((c == 0xf0 && d < 0x90) || (c == 0xf4 && d > 0x8f)) ok = false; }
    if (ok) { o.append(s.substr(i, (std::size_t)len)); i += (std::size_t)len; } else { o += "\\ufffd"; i++; }
  }
  return o;
}
static std::string dimsjson(const Dimensions& d) {
  char b[128];
  std::snprintf(b, sizeof b, "[%d,%d,%d,%d,%d,%d,%d]", (int)d.Time().Value(), (int)d.Length().Value(), (int)d.Mass().Value(), (int)d.ElectricCurrent().Value(),
                (int)d.Temperature().Value(), (int)d.SubstanceAmount().Value(), (int)d.LuminousIntensity().Value());
  return b;
}

template <class E> struct EnumDump {
  // enumerators as declared (name, value) supplied by the scanner
  static void run(const char* tname, const std::vector<std::pair<const char*, E>>& decl, bool is_unit, std::ostream& o);
};

template <class E> static std::string stream_of(E e) { std::ostringstream s; s << e; return s.str(); }

template <class E, class = void> struct Streamable : std::false_type {};
template <class E> struct Streamable<E, std::void_t<decltype(std::declval<std::ostream&>() << std::declval<E>())>> : std::true_type {};

template <class E> static void common_enum(const std::vector<std::pair<const char*, E>>& decl, std::ostream& o) {
  o << "\"abbreviations_size\":" << Internal::Abbreviations<E>.size() << ",\"spellings_size\":" << Internal::Spellings<E>.size() << ",\n  \"enumerators\":[";
  bool first = true;
  for (auto& [n, e] : decl) {
    o << (first ? "" : ",") << "\n   {\"name\":\"" << n << "\",\"value\":" << (int)e;
    first = false;
    const bool has = Internal::Abbreviations<E>.count(e) == 1;
    o << ",\"has_abbreviation\":" << (has ? "true" : "false");
    if (has) {
      const std::string_view ab = Abbreviation(e);
      o << ",\"abbreviation\":\"" << jesc(ab) << "\"";
      if constexpr (Streamable<E>::value) o << ",\"streams_as\":\"" << jesc(stream_of(e)) << "\"";
      const std::optional<E> back = ParseEnumeration<E>(ab);
      o << ",\"parse_of_abbreviation\":" << (back.has_value() ? (int)back.value() : -1);
    }
    o << "}";
  }
  o << "],\n  \"spellings\":[";
  // keys of the live table, each parsed through the public function
  std::vector<std::pair<std::string, int>> sp;
  for (auto& kv : Internal::Spellings<E>) {
    const std::optional<E> p = ParseEnumeration<E>(kv.first);
    sp.emplace_back(std::string(kv.first), p.has_value() ? (int)p.value() : -1);
    if (!p.has_value() || p.value() != kv.second) sp.back().second = -2;  // public parse disagrees with table
  }
  std::sort(sp.begin(), sp.end());
  first = true;
  for (auto& [k, v] : sp) { o << (first ? "" : ",") << "[\"" << jesc(k) << "\"," << v << "]"; first = false; }
  o << "]";
}

template <class U, class T> static int dispatch_mask(U u) {
  return (Internal::MapOfConversionsToStandard<U, T>.count(u) == 1 ? 1 : 0) | (Internal::MapOfConversionsFromStandard<U, T>.count(u) == 1 ? 2 : 0);
}

template <class U> static void dump_unit_type(const char* tname, const std::vector<std::pair<const char*, U>>& decl, std::ostream& o, bool& first_type) {
  o << (first_type ? "" : ",") << "\n {\"type\":\"" << tname << "\",\"kind\":\"unit\",\"standard\":" << (int)Standard<U> << ",\"dimensions\":" << dimsjson(RelatedDimensions<U>) << ",\n  ";
  first_type = false;
  common_enum<U>(decl, o);
  o << ",\n  \"dispatch_sizes\":[" << Internal::MapOfConversionsToStandard<U, float>.size() << "," << Internal::MapOfConversionsFromStandard<U, float>.size() << ","
    << Internal::MapOfConversionsToStandard<U, double>.size() << "," << Internal::MapOfConversionsFromStandard<U, double>.size() << ","
    << Internal::MapOfConversionsToStandard<U, long double>.size() << "," << Internal::MapOfConversionsFromStandard<U, long double>.size() << "]";
  o << ",\n  \"dispatch\":[";
  bool first = true;
  for (auto& [n, e] : decl) {
    o << (first ? "" : ",") << "[" << dispatch_mask<U, float>(e) << "," << dispatch_mask<U, double>(e) << "," << dispatch_mask<U, long double>(e) << "]";
    first = false;
    (void)n;
  }
  // what the run-time conversion actually does with 0 and 1 in each unit (long double): [to_standard(0), to_standard(1), from_standard(0), from_standard(1)]
  o << "],\n  \"converts\":[";
  first = true;
  for (auto& [n, e] : decl) {
    o << (first ? "" : ",");
    first = false;
    (void)n;
    if (dispatch_mask<U, long double>(e) != 3) { o << "null"; continue; }
    char b[256];
    std::snprintf(b, sizeof b, "[\"%.21Lg\",\"%.21Lg\",\"%.21Lg\",\"%.21Lg\"]", Convert<U, long double>(0.0L, e, Standard<U>), Convert<U, long double>(1.0L, e, Standard<U>),
                  Convert<U, long double>(0.0L, Standard<U>, e), Convert<U, long double>(1.0L, Standard<U>, e));
    o << b;
  }
  o << "],\n  \"consistent_units_size\":" << Internal::ConsistentUnits<U>.size() << ",\"related_unit_systems_size\":" << Internal::RelatedUnitSystems<U>.size();
  o << ",\n  \"consistent_unit\":{";
  first = true;
#define VF_SYS(S)                                                                                               \
  {                                                                                                             \
    o << (first ? "" : ",") << "\"" #S "\":";                                                                   \
    first = false;                                                                                              \
    if (Internal::ConsistentUnits<U>.count(UnitSystem::S) == 1) o << (int)ConsistentUnit<U>(UnitSystem::S);     \
    else o << "null";                                                                                           \
  }
  VF_ENUMS_UnitSystem(VF_SYS)
#undef VF_SYS
  o << "},\n  \"related_unit_system\":[";
  first = true;
  for (auto& [n, e] : decl) {
    const std::optional<UnitSystem> s = RelatedUnitSystem(e);
    o << (first ? "" : ",") << (s.has_value() ? (int)s.value() : -1);
    first = false;
    (void)n;
  }
  o << "]}";
}

template <template <class> class QT, class = void> struct QHasDims : std::false_type {};
template <template <class> class QT> struct QHasDims<QT, std::void_t<decltype(QT<double>::Dimensions())>> : std::true_type {};
template <template <class> class QT, class = void> struct QHasUnit : std::false_type {};
template <template <class> class QT> struct QHasUnit<QT, std::void_t<decltype(QT<double>::Unit())>> : std::true_type {};

template <class V> struct ShapeOf { static constexpr int n = 1; };
template <class T> struct ShapeOf<PlanarVector<T>> { static constexpr int n = 2; };
template <class T> struct ShapeOf<Vector<T>> { static constexpr int n = 3; };
template <class T> struct ShapeOf<SymmetricDyad<T>> { static constexpr int n = 6; };
template <class T> struct ShapeOf<Dyad<T>> { static constexpr int n = 9; };

template <class U> struct UTName { static constexpr const char* v = "?"; };
#define VF_T(T) template <> struct UTName<Unit::T> { static constexpr const char* v = #T; };
VF_UNIT_TYPES(VF_T)
#undef VF_T

template <template <class> class QT> static void dump_quantity(const char* name, const char* unit_type_name, std::ostream& o, bool& first) {
  o << (first ? "" : ",") << "\n {\"name\":\"" << name << "\"";
  first = false;
  if constexpr (QHasDims<QT>::value) {
    o << ",\"dimensions\":" << dimsjson(QT<double>::Dimensions()) << ",\"dimensions_f\":" << dimsjson(QT<float>::Dimensions()) << ",\"dimensions_l\":" << dimsjson(QT<long double>::Dimensions());
  }
  if constexpr (QHasUnit<QT>::value)
    o << ",\"unit_type\":\"" << UTName<decltype(QT<double>::Unit())>::v << "\",\"unit_type_scanned\":\"" << unit_type_name << "\",\"unit\":" << (int)QT<double>::Unit();
  using V = std::decay_t<decltype(std::declval<const QT<double>&>().Value())>;
  o << ",\"components\":" << ShapeOf<V>::n << ",\"sizeof\":[" << sizeof(QT<float>) << "," << sizeof(QT<double>) << "," << sizeof(QT<long double>) << "]}";
}

int main() {
  std::ostream& o = std::cout;
  o << "{\"enumerations\":[";
  bool first_type = true;
#define VF_E(T, E) {#E, Unit::T::E},
#define VF_T(T)                                                                     \
  {                                                                                 \
    const std::vector<std::pair<const char*, Unit::T>> decl{VF_ENUMS_##T(VF_E)};    \
    dump_unit_type<Unit::T>(#T, decl, o, first_type);                               \
  }
  VF_UNIT_TYPES(VF_T)
#undef VF_T
#undef VF_E
  {
#define VF_S(S) {#S, UnitSystem::S},
    const std::vector<std::pair<const char*, UnitSystem>> decl{VF_ENUMS_UnitSystem(VF_S)};
#undef VF_S
    o << ",\n {\"type\":\"UnitSystem\",\"kind\":\"unit_system\",\"standard\":" << (int)Standard<UnitSystem> << ",\n  ";
    common_enum<UnitSystem>(decl, o);
    o << "}";
  }
  {
#define VF_M(S) {#S, ConstitutiveModel::Type::S},
    const std::vector<std::pair<const char*, ConstitutiveModel::Type>> decl{VF_ENUMS_ModelType(VF_M)};
#undef VF_M
    o << ",\n {\"type\":\"ConstitutiveModel::Type\",\"kind\":\"model_type\",\n  ";
    common_enum<ConstitutiveModel::Type>(decl, o);
    o << "}";
  }
  o << "\n],\n\"quantities\":[";
  bool first = true;
  {
    // dimensional ones know their unit type name from the scanner; dimensionless ones pass ""
    std::map<std::string, std::string> ut;
#define VF_DQ(Q, U) ut[#Q] = #U;
    VF_DIMENSIONAL_QUANTITIES(VF_DQ)
#undef VF_DQ
#define VF_Q(Q) dump_quantity<Q>(#Q, ut.count(#Q) ? ut[#Q].c_str() : "", o, first);
    VF_QUANTITIES(VF_Q)
#undef VF_Q
  }
  o << "\n]}\n";
  return 0;
}
