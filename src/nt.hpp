// numeric type selection for registry translation units: compile with -DVF_NT=0|1|2
#pragma once
#ifndef VF_NT
#error "compile with -DVF_NT=0|1|2"
#endif
#if VF_NT == 0
using VfT = float;
#elif VF_NT == 1
using VfT = double;
#else
using VfT = long double;
#endif
#define VF_CAT2(a, b) a##b
#define VF_CAT(a, b) VF_CAT2(a, b)
#define VF_SYM(name) VF_CAT(name, VF_NT)
