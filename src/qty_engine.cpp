// Per-quantity checks over the type-erased quantity registry: C02 (unit entry points of quantities), C14 (order, equality,
// hash), C15 (composite serialisations), C16 (precision casts), C17 (layout, zero, mutators).
#include "engine.hpp"
#include "qty_iface.hpp"
#include <algorithm>
#include <regex>

using namespace vf;

static std::vector<const VfQuantity*> g_rows[3];
static void load_rows() {
#define VF_L(N, C) for (int i = 0; i < vf_qty_count_##N##_##C(); i++) g_rows[N].push_back(vf_qty_##N##_##C(i));
#define VF_LN(N) VF_L(N, 0) VF_L(N, 1) VF_L(N, 2) VF_L(N, 3) VF_L(N, 4) VF_L(N, 5)
  VF_LN(0) VF_LN(1) VF_LN(2)
  for (int n = 0; n < 3; n++) std::sort(g_rows[n].begin(), g_rows[n].end(), [](const VfQuantity* a, const VfQuantity* b) { return std::strcmp(a->name, b->name) < 0; });
}
static int NQ() { return (int)g_rows[0].size(); }
static const VfQuantity* row(int nt, int q) { return g_rows[nt][(size_t)q]; }
static std::vector<int> g_dimensional;  // indices of dimensional quantity types

static std::string sstr(const char* p, unsigned long n) { return std::string(p, n); }
// exact unit factors from the symbol expander (tools/symx.py), keyed by unit type and enumerator NAME: used to decide, independently of the
// library's own result, whether a conversion stays inside the normal range (so that a spurious overflow / underflow is not mistaken for a legitimate one)
struct UFactor { Q F = 1, O = 0; };
static std::map<std::string, std::map<std::string, UFactor>> g_ufac;
static void load_ufactors() {
  const char* p = std::getenv("VERIF_FACTORS"); if (!p) return;
  FILE* f = std::fopen(p, "r"); if (!f) return;
  char type[128], name[128], num[256], den[256], onum[256], oden[256]; int val, pi;
  const Q kPi = strtoflt128("3.14159265358979323846264338327950288419716939937510582", nullptr);
  while (std::fscanf(f, "%127s %d %127s %255s %255s %d %255s %255s", type, &val, name, num, den, &pi, onum, oden) == 8) {
    UFactor u; u.F = strtoflt128(num, nullptr) / strtoflt128(den, nullptr);
    for (int k = 0; k < pi; k++) u.F *= kPi; for (int k = 0; k > pi; k--) u.F /= kPi;
    u.O = strtoflt128(onum, nullptr) / strtoflt128(oden, nullptr);
    g_ufac[type][name] = u;
  }
  std::fclose(f);
}
static const UFactor* ufactor(const VfQuantity* R, int unit) {
  auto t = g_ufac.find(R->unit_type); if (t == g_ufac.end()) return nullptr;
  auto u = t->second.find(R->unit_names[unit]); return u == t->second.end() ? nullptr : &u->second;
}
static bool q_normal(int nt, Q v) { const Q a = fabsq(v); return a == 0 || (a >= ldexpq(1, ntinfo(nt).emin + 2) && a <= ldexpq(1, ntinfo(nt).emax - 2)); }
static int win(int nt) { return nt == 0 ? 16 : nt == 1 ? 200 : 2000; }
static bool normal_or_zero(int nt, LD v) {
  if (v == 0) return true;
  if (!std::isfinite(v)) return false;
  LD a = std::fabs(v);
  return a >= std::ldexp((LD)1, ntinfo(nt).emin + 1) && a <= std::ldexp((LD)1, ntinfo(nt).emax - 1);
}
static LD parse_in(int nt, const std::string& s) {
  if (nt == 0) return (LD)std::strtof(s.c_str(), nullptr);
  if (nt == 1) return (LD)std::strtod(s.c_str(), nullptr);
  return std::strtold(s.c_str(), nullptr);
}
static std::string comps_str(const LD* v, int n) { std::string s = "("; for (int i = 0; i < n; i++) { if (i) s += ", "; s += decld(v[i]); } return s + ")"; }
static bool distinct_comps(const LD* v, int n) { for (int i = 0; i < n; i++) for (int j = i + 1; j < n; j++) if (v[i] == v[j]) return false; return true; }
static std::vector<std::string> numbers_in(const std::string& s) {
  // number tokens as PhQ prints them; must not pick up digits inside tags/keys (there are none: keys are x, xy, value, unit)
  static const std::regex re("-?[0-9]+(\\.[0-9]+)?(e[-+][0-9]+)?");
  std::vector<std::string> out;
  for (auto it = std::sregex_iterator(s.begin(), s.end(), re); it != std::sregex_iterator(); ++it) out.push_back(it->str());
  return out;
}

// ================================================================================================ C02
static const double kOneUlp = 1.0;
static Verdict c02_quantity(const Case& c) {
  const int q = (int)c.i[0], nt = (int)c.i[1];
  const VfQuantity* R = row(nt, q);
  const int n = R->ncomp, u = (int)(c.i[2] % R->n_units), u2 = (int)(c.i[3] % R->n_units);
  const LD* v = c.r.data();
  const bool temperature = std::string(R->unit_type) == "Temperature";
  Verdict V; V.cls = std::string(ntinfo(nt).name) + ";" + (u == R->standard ? "from-standard" : "from-nonstandard") + ";ncomp" + std::to_string(n);
  LD stored[9], ref[9], out[9];
  R->in_unit(v, u, stored);
  long slots = 0, skipped = 0, bitequal = 0;
  auto fail = [&](const char* what, int i, LD got, LD want, double e, double tol) {
    return Verdict::fail(fmt("%s<%s>: %s: component %d is %s, the plain scalar conversion gives %s (%.3g ulp apart, allowed %.0f); input %s in %s, read in %s", R->name, ntinfo(nt).name, what, i, hexld(got).c_str(),
                             hexld(want).c_str(), e, tol, comps_str(v, n).c_str(), R->unit_names[u], R->unit_names[u2]));
  };
  for (int i = 0; i < n; i++) {
    ref[i] = R->convert_scalar(v[i], u, R->standard);
    if (!normal_or_zero(nt, ref[i]) || !normal_or_zero(nt, v[i]) || (ref[i] == 0 && v[i] != 0)) { skipped++; ref[i] = std::numeric_limits<LD>::quiet_NaN(); continue; }   // conversion leaves the normal range (overflow, underflow to zero)
    slots++;
    if (same_bits(nt, stored[i], ref[i])) bitequal++;
    double e = err_ulps(nt, stored[i], (Q)ref[i], (Q)ref[i]);
    if (!(e <= kOneUlp)) return fail("value stored by Q(v, unit)", i, stored[i], ref[i], e, kOneUlp);
  }
  // independent of the library's own result: when the exact standard-unit value (x*F + O from the symbol expander) is comfortably inside the normal
  // range, the stored component must be finite, non-zero for non-zero input, and the read-back in the same unit must return the input
  const UFactor* fu = ufactor(R, u);
  bool exact_ok[9];
  for (int i = 0; i < n; i++) {
    exact_ok[i] = false;
    if (!fu || !normal_or_zero(nt, v[i]) || v[i] == 0) continue;
    const Q ex = (Q)v[i] * fu->F + fu->O;
    if (!q_normal(nt, ex) || ex == 0) continue;
    exact_ok[i] = true;
    if (!std::isfinite(stored[i]) || stored[i] == 0)
      return Verdict::fail(fmt("%s<%s>(%s in %s): component %d is stored as %s although the standard-unit value implied by the unit symbols, %s, is well inside the range of %s: an intermediate of the conversion overflowed or underflowed",
                               R->name, ntinfo(nt).name, comps_str(v, n).c_str(), R->unit_names[u], i, decld(stored[i]).c_str(), qstr(ex).c_str(), ntinfo(nt).name));
  }
  if (slots == 0) return Verdict::skip("out-of-normal-range");
  // Create<unit>(...) overloads
  for (int k = 0; k < R->n_create; k++) {
    LD st2[9]; R->create(v, u, k, st2);
    for (int i = 0; i < n; i++) {
      if (!normal_or_zero(nt, ref[i]) || !normal_or_zero(nt, v[i])) continue;
      double e = err_ulps(nt, st2[i], (Q)ref[i], (Q)ref[i]);
      if (!(e <= kOneUlp)) return fail(k == 0 ? "Create<unit>(numbers)" : k == 1 ? "Create<unit>(std::array)" : "Create<unit>(value type)", i, st2[i], ref[i], e, kOneUlp);
    }
  }
  // read back in the same unit
  R->value_unit(stored, u, out);
  for (int i = 0; i < n; i++) {
    if (!exact_ok[i] && (!normal_or_zero(nt, ref[i]) || !normal_or_zero(nt, v[i]) || !normal_or_zero(nt, out[i]))) continue;
    if (std::isnan(ref[i]) && !exact_ok[i]) continue;
    Q scale = fabsq((Q)v[i]);
    if (temperature) scale += 500;  // affine units form |v| + |offset/factor| (273.15 or 459.67) on the way
    double e = err_ulps(nt, out[i], (Q)v[i], scale);
    if (!(e <= 2.0)) return Verdict::fail(fmt("%s<%s>: Q(v, %s).Value(%s) component %d is %s for input %s: %.3g ulp (allowed 2)", R->name, ntinfo(nt).name, R->unit_names[u], R->unit_names[u], i, hexld(out[i]).c_str(), hexld(v[i]).c_str(), e));
  }
  // read in another unit: run-time, compile-time, and the four text forms
  LD ref2[9]; bool ok2[9];
  for (int i = 0; i < n; i++) { ref2[i] = R->convert_scalar(stored[i], R->standard, u2); ok2[i] = normal_or_zero(nt, stored[i]) && normal_or_zero(nt, ref2[i]) && std::isfinite(stored[i]) && !(ref2[i] == 0 && stored[i] != 0) && !std::isnan(ref[i]); }
  R->value_unit(stored, u2, out);
  for (int i = 0; i < n; i++) if (ok2[i]) { double e = err_ulps(nt, out[i], (Q)ref2[i], (Q)ref2[i]); if (!(e <= kOneUlp)) return fail("Value(unit)", i, out[i], ref2[i], e, kOneUlp); }
  R->static_value(stored, u2, out);
  for (int i = 0; i < n; i++) if (ok2[i]) { double e = err_ulps(nt, out[i], (Q)ref2[i], (Q)ref2[i]); if (!(e <= kOneUlp)) return fail("StaticValue<unit>()", i, out[i], ref2[i], e, kOneUlp); }
  bool allok = true; for (int i = 0; i < n; i++) allok = allok && ok2[i];
  if (allok) {
    unsigned long len; const char* p = R->unit_abbrev(u2, &len); const std::string ab = sstr(p, len);
    static const char* fn[] = {"Print(unit)", "JSON(unit)", "XML(unit)", "YAML(unit)"};
    for (int form = 0; form < 4; form++) {
      LD dummy[9]; p = R->print(stored, form, u2, &len, dummy); std::string text = sstr(p, len);
      // strip the abbreviation (it may contain digits, e.g. m^2) before looking for numbers
      size_t pos = text.rfind(ab);
      if (pos == std::string::npos) return Verdict::fail(fmt("%s<%s>: %s = \"%s\" does not contain the abbreviation \"%s\" of %s", R->name, ntinfo(nt).name, fn[form], text.c_str(), ab.c_str(), R->unit_names[u2]));
      std::string body = text.substr(0, pos) + text.substr(pos + ab.size());
      auto nums = numbers_in(body);
      if ((int)nums.size() != n) return Verdict::fail(fmt("%s<%s>: %s = \"%s\" carries %zu numbers, expected %d", R->name, ntinfo(nt).name, fn[form], text.c_str(), nums.size(), n));
      for (int i = 0; i < n; i++) {
        LD got = parse_in(nt, nums[(size_t)i]);
        double e = err_ulps(nt, got, (Q)ref2[i], (Q)ref2[i]);
        if (!(e <= kOneUlp)) return fail(fn[form], i, got, ref2[i], e, kOneUlp);
      }
    }
  }
  V.nontrivial = (u != R->standard || u2 != R->standard) && (n == 1 || distinct_comps(v, n));
  if (skipped) V.cls += ";some-slots-out-of-range";
  V.cls += bitequal == slots ? ";stored-bit-equal-to-scalar-conversion" : ";stored-within-1ulp";
  V.show = fmt("%s<%s> %s %s -> read in %s", R->name, ntinfo(nt).name, comps_str(v, n).c_str(), R->unit_names[u], R->unit_names[u2]);
  return V;
}

// ================================================================================================ C14
static int lexcmp(const LD* a, const LD* b, int n) { for (int i = 0; i < n; i++) { if (a[i] < b[i]) return -1; if (a[i] > b[i]) return 1; } return 0; }
static int oracle_mask(int c) { return (c == 0 ? 1 : 0) | (c != 0 ? 2 : 0) | (c < 0 ? 4 : 0) | (c > 0 ? 8 : 0) | (c <= 0 ? 16 : 0) | (c >= 0 ? 32 : 0); }
static Verdict c14_order(const Case& c) {
  const int q = (int)c.i[0], nt = (int)c.i[1];
  const VfQuantity* R = row(nt, q); const int n = R->ncomp;
  const LD* x[3] = {c.r.data(), c.r.data() + n, c.r.data() + 2 * n};
  LD st[3][9];
  for (int k = 0; k < 3; k++) R->roundtrip(x[k], st[k]);
  for (int k = 0; k < 3; k++) for (int i = 0; i < n; i++) if (std::isnan(st[k][i])) return Verdict::skip("nan-after-normalisation");
  static const char* opn[] = {"==", "!=", "<", ">", "<=", ">="};
  int ties = 0; bool zero_pair = false;
  for (int a = 0; a < 3; a++) for (int b = 0; b < 3; b++) {
    LD sa[9], sb[9];
    const int got = R->compare(x[a], x[b], sa, sb);
    const int cmp = lexcmp(st[a], st[b], n);
    const int want = oracle_mask(cmp);
    if (got != want) {
      int bit = 0; while (((got ^ want) >> bit & 1) == 0) bit++;
      return Verdict::fail(fmt("%s<%s>: %s %s %s is %s, lexicographic comparison of the stored components says %s", R->name, ntinfo(nt).name, comps_str(st[a], n).c_str(), opn[bit], comps_str(st[b], n).c_str(),
                               (got >> bit & 1) ? "true" : "false", (want >> bit & 1) ? "true" : "false"));
    }
    if (cmp == 0 && R->hash(x[a]) != R->hash(x[b]))
      return Verdict::fail(fmt("%s<%s>: %s == %s but their hashes differ", R->name, ntinfo(nt).name, comps_str(st[a], n).c_str(), comps_str(st[b], n).c_str()));
    if (a != b) {
      int t = 0; while (t < n && st[a][t] == st[b][t]) t++;
      if (t > ties && t < n) ties = t;
      for (int i = 0; i < n; i++) if (st[a][i] == 0 && st[b][i] == 0 && std::signbit(st[a][i]) != std::signbit(st[b][i])) zero_pair = true;
    }
  }
  // transitivity / trichotomy on the triple follow from agreement with the oracle; asserted anyway through the oracle being a total order
  Verdict V; V.cls = std::string(ntinfo(nt).name) + ";ncomp" + std::to_string(n) + ";tie" + std::to_string(ties) + (zero_pair ? ";signed-zero-pair" : "");
  V.nontrivial = n == 1 || ties >= 1 || zero_pair;
  V.show = fmt("%s<%s> a=%s b=%s c=%s", R->name, ntinfo(nt).name, comps_str(st[0], n).c_str(), comps_str(st[1], n).c_str(), comps_str(st[2], n).c_str());
  return V;
}
static Verdict c14_containers(const Case& c) {
  const int q = (int)c.i[0], nt = (int)c.i[1];
  const VfQuantity* R = row(nt, q); const int n = R->ncomp;
  const int count = (int)(c.r.size() / (size_t)n);
  std::vector<LD> stored(c.r.size()); int out3[3];
  R->containers(c.r.data(), count, stored.data(), out3);
  for (LD s : stored) if (std::isnan(s)) return Verdict::skip("nan-after-normalisation");
  // oracle: number of distinct members under value equality of the stored components (+0 == -0)
  int distinct = 0;
  for (int a = 0; a < count; a++) { bool dup = false; for (int b = 0; b < a; b++) if (lexcmp(&stored[(size_t)a * n], &stored[(size_t)b * n], n) == 0) dup = true; if (!dup) distinct++; }
  if (out3[0] != distinct || out3[1] != distinct || out3[2] != count)
    return Verdict::fail(fmt("%s<%s>: %d objects with %d distinct values: std::set holds %d, std::unordered_set holds %d, %d of %d found again", R->name, ntinfo(nt).name, count, distinct, out3[0], out3[1], out3[2], count));
  Verdict V; V.cls = std::string(ntinfo(nt).name) + (distinct < count ? ";with-duplicates" : ";all-distinct"); V.nontrivial = count >= 2 && distinct < count && distinct >= 2;
  return V;
}
// components drawn from a small pool so that ties in leading components are frequent
static rc::Gen<LD> pool_value(int nt, bool finite_only) {
  const LD mx = std::ldexp((LD)2 - eps_of(nt), ntinfo(nt).emax), mn = std::ldexp((LD)1, ntinfo(nt).emin), inf = std::numeric_limits<LD>::infinity();
  std::vector<LD> pool = {-mx, -1, -mn, -(LD)0, (LD)0, mn, 1, 1 + eps_of(nt), mx, 2, -2, 0.5L};
  if (!finite_only) { pool.push_back(inf); pool.push_back(-inf); }
  return rc::gen::oneOf(rc::gen::elementOf(pool), rc::gen::elementOf(pool), gen_real(nt, -8, 8, kNeg | kZero));
}
static rc::Gen<Case> gen_c14_order(int inst) {
  const int q = inst % NQ(), nt = inst / NQ();
  const VfQuantity* R = row(nt, q); const int n = R->ncomp; const bool dir = R->kind == 2;
  // directions: moderate finite values only (normalisation of huge/inf components is outside C14)
  auto val = dir ? rc::gen::oneOf(rc::gen::element<LD>(-1, -(LD)0, (LD)0, 1, 2, -2, 0.5L, 3), gen_real(nt, -4, 4, kNeg | kZero)) : pool_value(nt, false);
  return rc::gen::map(rc::gen::tuple(rc::gen::container<std::vector<LD>>((size_t)(3 * n), val), irange(0, n), irange(0, n), irange(0, 3)),
                      [=](const std::tuple<std::vector<LD>, int, int, int>& t) {
                        Case c; c.i = {q, nt}; c.r = std::get<0>(t);
                        const int p1 = std::get<1>(t), p2 = std::get<2>(t), mode = std::get<3>(t);
                        // force ties: b shares the first p1 components with a, c shares the first p2 with b (mode 3: leave independent)
                        if (mode != 3) { for (int i = 0; i < p1 && i < n; i++) c.r[(size_t)(n + i)] = c.r[(size_t)i]; for (int i = 0; i < p2 && i < n; i++) c.r[(size_t)(2 * n + i)] = c.r[(size_t)(n + i)]; }
                        return c;
                      });
}
static rc::Gen<Case> gen_c14_containers(int inst) {
  const int q = inst % NQ(), nt = inst / NQ();
  const VfQuantity* R = row(nt, q); const int n = R->ncomp; const bool dir = R->kind == 2;
  auto val = dir ? rc::gen::element<LD>(-1, -(LD)0, (LD)0, 1, 2) : rc::gen::element<LD>(-1, -(LD)0, (LD)0, 1, std::ldexp((LD)1, ntinfo(nt).emin), std::numeric_limits<LD>::infinity());
  return rc::gen::mapcat(irange(1, 40), [=](int count) {
    return rc::gen::map(rc::gen::container<std::vector<LD>>((size_t)(count * n), val), [=](const std::vector<LD>& v) { Case c; c.i = {q, nt}; c.r = v; return c; });
  });
}

// ================================================================================================ C16
static LD cast_to(int nt, LD v) { return round_to(nt, v); }
static Verdict c16_cast(const Case& c) {
  const int q = (int)c.i[0], nt = (int)c.i[1], to = (int)c.i[2], via = (int)c.i[3];
  const VfQuantity* R = row(nt, q); const int n = R->ncomp;
  LD src[9], out[9], prior[9];
  // via 2: the target of the assignment already holds (nearly) the value being assigned: the source value seen from the target type, moved by a few target-ulps
  // - "g = s" right after "s = g" - so that the two compare equal in the coarser type; the assignment must still store the plain cast
  for (int i = 0; i < 9; i++) {
    const LD x = i < n ? round_to(nt, c.r[(size_t)i]) : 0; const int k = c.i.size() > 4 ? (int)((c.i[4] >> (2 * i)) & 3) : 0;
    const int fine = ntinfo(to).mant > ntinfo(nt).mant ? to : nt;
    prior[i] = round_to(to, x + (k - 1) * ulp_at(fine, x) * (ntinfo(to).mant > ntinfo(nt).mant ? 3 : 1));
    if (!std::isfinite(prior[i])) prior[i] = round_to(to, x);
  }
  R->cast(to, via, c.r.data(), prior, src, out);
  const char* how = via == 0 ? "converting constructor" : via == 1 ? "converting assignment" : "converting assignment into a target that holds nearly the same value";
  Verdict V; V.cls = std::string(ntinfo(nt).name) + "->" + ntinfo(to).name + (via == 0 ? ";construct" : via == 1 ? ";assign" : ";assign-over-nearly-equal");
  bool inexact = false;
  if (R->kind == 2) {
    Q norm = 0;
    for (int i = 0; i < n; i++) {
      LD want = cast_to(to, src[i]);
      // "re-normalised, which changes it by no more than two ulps": ulps of the coarser of the two types (a float direction is a unit
      // vector only to float precision, so re-normalising it in double moves it by up to the float rounding error)
      const int coarse = ntinfo(to).mant < ntinfo(nt).mant ? to : nt;
      double e = err_ulps(coarse, out[i], (Q)want, (Q)1);
      if (!(e <= 2.0)) return Verdict::fail(fmt("%s<%s> -> <%s> by %s: component %d is %s, cast gives %s (%.2f ulp of %s at 1, allowed 2)", R->name, ntinfo(nt).name, ntinfo(to).name, how, i, hexld(out[i]).c_str(), hexld(want).c_str(), e, ntinfo(coarse).name));
      norm += (Q)out[i] * (Q)out[i];
    }
    bool zero = true; for (int i = 0; i < n; i++) if (src[i] != 0) zero = false;
    // unit length to the precision of the coarser type: the converting constructor re-normalises, the converting assignment is a plain cast
    // (both are within two ulps of the cast); a float direction widened by assignment is a unit vector to float precision only
    // The converting CONSTRUCTOR is "additionally re-normalised" (statement): its result is a unit vector of the TARGET type, whatever the precision of the source.
    const int coarse = via == 0 ? to : (ntinfo(to).mant < ntinfo(nt).mant ? to : nt);
    if (!zero) { double e = (double)(fabsq(sqrtq(norm) - 1) / (Q)eps_of(coarse)); if (!(e <= 4.0)) return Verdict::fail(fmt("%s<%s> -> <%s> by %s: result has length 1 +- %.2f ulp of %s (allowed 4)%s", R->name, ntinfo(nt).name, ntinfo(to).name, how, e, ntinfo(coarse).name, via == 0 ? ": the converting constructor re-normalises in the target type" : "")); }
    V.nontrivial = !zero;
    return V;
  }
  for (int i = 0; i < n; i++) {
    LD want = cast_to(to, src[i]);
    if (want != src[i]) inexact = true;
    if (!same_bits(to, out[i], want))
      return Verdict::fail(fmt("%s<%s> -> <%s> by %s: component %d is %s, static_cast of the stored component %s gives %s (all stored: %s)", R->name, ntinfo(nt).name, ntinfo(to).name, how, i, hexld(out[i]).c_str(),
                               hexld(src[i]).c_str(), hexld(want).c_str(), comps_str(src, n).c_str()));
  }
  // widening followed by narrowing is the identity
  if (ntinfo(to).mant > ntinfo(nt).mant) {
    const VfQuantity* W = row(to, q); LD s2[9], back[9];
    W->cast(nt, via, out, src, s2, back);
    for (int i = 0; i < n; i++) if (!same_bits(nt, back[i], src[i]))
      return Verdict::fail(fmt("%s: <%s> -> <%s> -> <%s> by %s changes component %d from %s to %s", R->name, ntinfo(nt).name, ntinfo(to).name, ntinfo(nt).name, how, i, hexld(src[i]).c_str(), hexld(back[i]).c_str()));
    V.cls += ";widen-narrow";
  } else {
    V.cls += inexact ? ";narrowing-inexact" : ";narrowing-exact";
    bool tie = false; for (int i = 0; i < n; i++) { const LD w = cast_to(to, src[i]); if (w != src[i] && std::fabs(std::fabs(src[i] - w) - ulp_at(to, w) / 2) <= 2 * ulp_at(nt, src[i])) tie = true; }
    if (tie) V.cls += ";at-or-next-to-a-rounding-tie";
  }
  V.nontrivial = (n == 1 || distinct_comps(src, n)) && (inexact || ntinfo(to).mant > ntinfo(nt).mant);
  V.show = fmt("%s %s -> %s %s", R->name, ntinfo(nt).name, ntinfo(to).name, comps_str(src, n).c_str());
  return V;
}
static rc::Gen<Case> gen_c16(int inst) {
  const int q = inst % NQ(); int rest = inst / NQ(); const int via = rest % 2; rest /= 2; const int pair = rest;  // 6 ordered pairs
  static const int from[6] = {0, 0, 1, 1, 2, 2}, to[6] = {1, 2, 0, 2, 0, 1};
  const int nt = from[pair], t2 = to[pair];
  const VfQuantity* R = row(nt, q); const int n = R->ncomp;
  // inside the finite (normal) range of the narrower type: an out-of-range narrowing is undefined behaviour in C++ and is not generated
  const int narrow = ntinfo(nt).mant < ntinfo(t2).mant ? nt : t2;
  const int lim = R->kind == 2 ? 8 : (narrow == 0 ? 100 : narrow == 1 ? 900 : 12000);
  return rc::gen::map(rc::gen::tuple(gen_reals(n, nt, -lim, lim, kNeg | kZero), irange(0, 24)), [=](const std::tuple<std::vector<LD>, int>& t) {
    Case c; c.i = {q, nt, t2, (via == 1 && std::get<1>(t) % 2 == 0) ? 2 : via, (long long)std::get<1>(t) * 2654435761LL % 262144}; c.r = std::get<0>(t);
    if (std::get<1>(t) == 0) for (auto& x : c.r) x = 0;                                   // the all-zero value (zero vector, zero direction)
    if (std::get<1>(t) == 1) for (auto& x : c.r) x = std::signbit(x) ? -(LD)0 : (LD)0;    // signed zeros
    // narrowing: components on, and one source-ulp either side of, a rounding tie of the target type (a cast that goes through an intermediate
    // type rounds twice and breaks such ties the wrong way; random values are that close to a tie with probability 2^-29)
    if (std::get<1>(t) >= 2 && std::get<1>(t) <= 7 && narrow == t2 && R->kind != 2) to_rounding_ties(c.r, nt, t2, std::get<1>(t) - 2);
    return c; });
}

// ================================================================================================ C17
static Verdict c17_layout(const Case& c) {
  const int q = (int)c.i[0], nt = (int)c.i[1];
  const VfQuantity* R = row(nt, q);
  static const unsigned long sz[3] = {sizeof(float), sizeof(double), sizeof(long double)}, al[3] = {alignof(float), alignof(double), alignof(long double)};
  Verdict V; V.nontrivial = true; V.cls = std::string(ntinfo(nt).name) + ";ncomp" + std::to_string(R->ncomp);
  if (R->ncomp != 1 && R->ncomp != 2 && R->ncomp != 3 && R->ncomp != 6 && R->ncomp != 9) return Verdict::fail(fmt("%s has %d components", R->name, R->ncomp));
  if (R->size != (unsigned long)R->ncomp * sz[nt]) return Verdict::fail(fmt("sizeof(%s<%s>) = %lu, expected %d x %lu: padding or hidden state", R->name, ntinfo(nt).name, R->size, R->ncomp, sz[nt]));
  if (R->align != al[nt]) return Verdict::fail(fmt("alignof(%s<%s>) = %lu, expected %lu", R->name, ntinfo(nt).name, R->align, al[nt]));
  if (!R->trivially_copyable) return Verdict::fail(fmt("%s<%s> is not trivially copyable", R->name, ntinfo(nt).name));
  if (!R->standard_layout) return Verdict::fail(fmt("%s<%s> is not standard-layout", R->name, ntinfo(nt).name));
  if (R->polymorphic) return Verdict::fail(fmt("%s<%s> is polymorphic (has a hidden vtable pointer)", R->name, ntinfo(nt).name));
  LD z[9]; R->zero(z);
  for (int i = 0; i < R->ncomp; i++) if (z[i] != 0 || std::signbit(z[i])) return Verdict::fail(fmt("%s<%s>::Zero() component %d is %s, expected +0", R->name, ntinfo(nt).name, i, hexld(z[i]).c_str()));
  V.show = fmt("%s<%s>: sizeof %lu alignof %lu", R->name, ntinfo(nt).name, R->size, R->align);
  return V;
}
static Verdict c17_memcpy(const Case& c) {
  const int q = (int)c.i[0], nt = (int)c.i[1];
  const VfQuantity* R = row(nt, q); const int n = R->ncomp; const int count = (int)(c.r.size() / (size_t)n);
  std::vector<LD> out(c.r.size());
  R->memcpy_array(c.r.data(), count, out.data());
  for (size_t i = 0; i < c.r.size(); i++) if (!same_bits(nt, out[i], c.r[i]))
    return Verdict::fail(fmt("%s<%s>: an array of %d x %d raw numbers copied over an array of quantities reads back %s at position %zu instead of %s", R->name, ntinfo(nt).name, count, n, hexld(out[i]).c_str(), i, hexld(c.r[i]).c_str()));
  Verdict V; V.nontrivial = count >= 2; V.cls = std::string(ntinfo(nt).name); return V;
}
static Verdict c17_history(const Case& c) {
  const int q = (int)c.i[0], nt = (int)c.i[1];
  const VfQuantity* R = row(nt, q); const int n = R->ncomp; const int nops = (int)c.i[2];
  std::vector<int> ops, comp; std::vector<LD> args((size_t)nops * 9), after((size_t)nops * (size_t)n);
  for (int k = 0; k < nops; k++) { ops.push_back((int)c.i[(size_t)(3 + 2 * k)]); comp.push_back((int)c.i[(size_t)(4 + 2 * k)] % n); for (int j = 0; j < 9; j++) args[(size_t)k * 9 + (size_t)j] = c.r[(size_t)(9 + k * 9 + j)]; }
  if (R->kind == 2) for (auto& o : ops) if (o < 4 || o > 5) o = 4 + (o & 1);   // (a direction re-normalises what it is given: only the round trips have a bit-exact model)  // directions have no raw mutators; keep the copy/memcpy round trips
  LD init[9]; R->roundtrip(c.r.data(), init);
  // derived steps (the new value is related to the value the object holds): 6 = SetValue(all components zero, signs from the step's arguments),
  // 7 = SetValue(the current value with the sign of every zero component flipped) - equal under ==, different bits: the store must still happen
  bool related = false;
  {
    LD cur[9]; for (int i = 0; i < n; i++) cur[i] = init[i];
    for (int k = 0; k < nops; k++) {
      LD* a = &args[(size_t)k * 9];
      if (ops[(size_t)k] == 6) { for (int i = 0; i < n; i++) a[i] = std::signbit(a[i]) ? -(LD)0 : (LD)0; ops[(size_t)k] = 0; }
      else if (ops[(size_t)k] == 7) { for (int i = 0; i < n; i++) a[i] = cur[i] == 0 ? (std::signbit(cur[i]) ? (LD)0 : -(LD)0) : cur[i]; static const int how[4] = {0, 1, 6, 7}; ops[(size_t)k] = how[c.i[(size_t)(4 + 2 * k)] % 4]; related = true; }
      else if (ops[(size_t)k] == 8) ops[(size_t)k] = 6; else if (ops[(size_t)k] == 9) ops[(size_t)k] = 7;   // plain copy / move assignment of the step's arguments
      if (ops[(size_t)k] <= 1 || ops[(size_t)k] >= 6) for (int i = 0; i < n; i++) cur[i] = round_to(nt, a[i]);
      else if (ops[(size_t)k] <= 3) cur[comp[(size_t)k]] = round_to(nt, a[0]);
    }
  }
  if (R->history(c.r.data(), ops.data(), comp.data(), args.data(), nops, after.data()) != 0) return Verdict::skip("mutator-not-available");
  LD model[9]; for (int i = 0; i < n; i++) model[i] = init[i];
  static const char* on[] = {"SetValue(v)", "MutableValue() = v", "MutableValue().Mutable_<c>() = x", "MutableValue().Set_<c>(x)", "copy-assign/copy-construct round trip", "memcpy round trip", "copy assignment of v", "move assignment of v"};
  std::set<int> kinds;
  for (int k = 0; k < nops; k++) {
    const LD* a = &args[(size_t)k * 9];
    if (ops[(size_t)k] <= 1 || ops[(size_t)k] >= 6) for (int i = 0; i < n; i++) model[i] = a[i];
    else if (ops[(size_t)k] <= 3) model[comp[(size_t)k]] = a[0];
    kinds.insert(ops[(size_t)k]);
    for (int i = 0; i < n; i++) if (!same_bits(nt, after[(size_t)k * (size_t)n + (size_t)i], model[i]))
      return Verdict::fail(fmt("%s<%s>: after step %d (%s, component %d) the stored component %d is %s, a plain array of numbers holds %s", R->name, ntinfo(nt).name, k, on[ops[(size_t)k]], comp[(size_t)k], i,
                               hexld(after[(size_t)k * (size_t)n + (size_t)i]).c_str(), hexld(model[i]).c_str()));
  }
  Verdict V; V.nontrivial = kinds.size() >= 2; V.cls = std::string(ntinfo(nt).name) + ";ops" + std::to_string(kinds.size()) + (related ? ";with-a-step-that-only-flips-zero-signs" : ""); return V;
}
static rc::Gen<Case> gen_c17_history(int inst) {
  const int q = inst % NQ(), nt = inst / NQ();
  return rc::gen::mapcat(irange(1, 12), [=](int nops) {
    return rc::gen::map(rc::gen::tuple(rc::gen::container<std::vector<int>>((size_t)(2 * nops), irange(0, 9)), gen_reals(9 + 9 * nops, nt, -30, 30, kNeg | kZero)),
                        [=](const std::tuple<std::vector<int>, std::vector<LD>>& t) { Case c; c.i = {q, nt, nops}; for (int x : std::get<0>(t)) c.i.push_back(x); c.r = std::get<1>(t); return c; });
  });
}

// ================================================================================================ C15 composite
static const char* const* comp_names(int n) {
  static const char* c1[] = {""}; static const char* c2[] = {"x", "y"}; static const char* c3[] = {"x", "y", "z"};
  static const char* c6[] = {"xx", "xy", "xz", "yy", "yz", "zz"}; static const char* c9[] = {"xx", "xy", "xz", "yx", "yy", "yz", "zx", "zy", "zz"};
  return n == 1 ? c1 : n == 2 ? c2 : n == 3 ? c3 : n == 6 ? c6 : c9;
}
// reference formatter written from the property statement
static std::string ref_value(int form, int n, const std::vector<std::string>& num) {
  const char* const* cn = comp_names(n);
  if (n == 1) return num[0];
  std::string s;
  if (form == 0 || form == 4) {
    s = "(";
    for (int i = 0; i < n; i++) {
      if (i) { const bool rowbreak = (n == 6 && (i == 3 || i == 5)) || (n == 9 && (i == 3 || i == 6)); s += rowbreak ? "; " : ", "; }
      s += num[(size_t)i];
    }
    return s + ")";
  }
  if (form == 1) { s = "{"; for (int i = 0; i < n; i++) { if (i) s += ","; s += std::string("\"") + cn[i] + "\":" + num[(size_t)i]; } return s + "}"; }
  if (form == 2) { for (int i = 0; i < n; i++) s += std::string("<") + cn[i] + ">" + num[(size_t)i] + "</" + cn[i] + ">"; return s; }
  s = "{"; for (int i = 0; i < n; i++) { if (i) s += ","; s += std::string(cn[i]) + ":" + num[(size_t)i]; } return s + "}";
}
static std::string ref_text(int form, int n, const std::vector<std::string>& num, bool has_unit, const std::string& ab) {
  const std::string v = ref_value(form, n, num);
  if (!has_unit) return v;
  switch (form) {
    case 0: case 4: return v + " " + ab;
    case 1: return "{\"value\":" + v + ",\"unit\":\"" + ab + "\"}";
    case 2: return "<value>" + v + "</value><unit>" + ab + "</unit>";
    default: return "{value:" + v + ",unit:\"" + ab + "\"}";
  }
}
// strict RFC 8259 parser; collects the numbers (as text) in document order and the string values
struct Json {
  const std::string& s; size_t p = 0; std::vector<std::string> numbers, strings, keys; bool ok = true;
  explicit Json(const std::string& t) : s(t) {}
  void ws() { while (p < s.size() && (s[p] == ' ' || s[p] == '\t' || s[p] == '\n' || s[p] == '\r')) p++; }
  bool str(std::string& out) {
    if (p >= s.size() || s[p] != '"') return false;
    p++;
    while (p < s.size() && s[p] != '"') {
      unsigned char ch = (unsigned char)s[p];
      if (ch < 0x20) return false;
      if (ch == '\\') { p++; if (p >= s.size()) return false; char e = s[p]; if (std::strchr("\"\\/bfnrt", e)) { out += e; p++; } else if (e == 'u') { for (int k = 1; k <= 4; k++) if (p + (size_t)k >= s.size() || !std::isxdigit((unsigned char)s[p + (size_t)k])) return false; p += 5; } else return false; }
      else { out += s[p]; p++; }
    }
    if (p >= s.size()) return false;
    p++; return true;
  }
  bool number() {
    size_t b = p;
    if (p < s.size() && s[p] == '-') p++;
    if (p >= s.size()) return false;
    if (s[p] == '0') p++; else if (s[p] >= '1' && s[p] <= '9') { while (p < s.size() && std::isdigit((unsigned char)s[p])) p++; } else return false;
    if (p < s.size() && s[p] == '.') { p++; if (p >= s.size() || !std::isdigit((unsigned char)s[p])) return false; while (p < s.size() && std::isdigit((unsigned char)s[p])) p++; }
    if (p < s.size() && (s[p] == 'e' || s[p] == 'E')) { p++; if (p < s.size() && (s[p] == '+' || s[p] == '-')) p++; if (p >= s.size() || !std::isdigit((unsigned char)s[p])) return false; while (p < s.size() && std::isdigit((unsigned char)s[p])) p++; }
    numbers.push_back(s.substr(b, p - b)); return true;
  }
  bool value() {
    ws(); if (p >= s.size()) return false;
    if (s[p] == '{') {
      p++; ws(); if (p < s.size() && s[p] == '}') { p++; return true; }
      for (;;) { ws(); std::string k; if (!str(k)) return false; keys.push_back(k); ws(); if (p >= s.size() || s[p] != ':') return false; p++; if (!value()) return false; ws(); if (p < s.size() && s[p] == ',') { p++; continue; } if (p < s.size() && s[p] == '}') { p++; return true; } return false; }
    }
    if (s[p] == '[') { p++; ws(); if (p < s.size() && s[p] == ']') { p++; return true; } for (;;) { if (!value()) return false; ws(); if (p < s.size() && s[p] == ',') { p++; continue; } if (p < s.size() && s[p] == ']') { p++; return true; } return false; } }
    if (s[p] == '"') { std::string v; if (!str(v)) return false; strings.push_back(v); return true; }
    if (s.compare(p, 4, "true") == 0) { p += 4; return true; } if (s.compare(p, 5, "false") == 0) { p += 5; return true; } if (s.compare(p, 4, "null") == 0) { p += 4; return true; }
    return number();
  }
  bool parse() { if (!value()) return false; ws(); return p == s.size(); }
};
static Verdict c15_composite(const Case& c) {
  const int q = (int)c.i[0], nt = (int)c.i[1];
  const VfQuantity* R = row(nt, q); const int n = R->ncomp;
  const bool has_unit = R->kind == 0;
  int u = has_unit ? (int)(c.i[2] % (R->n_units + 1)) - 1 : -1;  // -1: the overloads without a unit argument
  LD stored[9], inunit[9];
  unsigned long len;
  { const char* p0 = R->print(c.r.data(), 0, -1, &len, stored); (void)p0; }  // the components the printed object actually stores (directions normalise)
  for (int i = 0; i < n; i++) if (!std::isfinite(stored[i])) return Verdict::skip("non-finite");
  if (u >= 0) R->value_unit(stored, u, inunit); else for (int i = 0; i < n; i++) inunit[i] = stored[i];
  for (int i = 0; i < n; i++) if (!std::isfinite(inunit[i])) return Verdict::skip("non-finite-in-unit");
  std::vector<std::string> num;
  for (int i = 0; i < n; i++) { const char* p = R->print_number(inunit[i], &len); num.push_back(sstr(p, len)); }
  std::string ab;
  if (has_unit) { const char* p = R->unit_abbrev(u >= 0 ? u : R->standard, &len); ab = sstr(p, len); }
  static const char* fn[] = {"Print", "JSON", "XML", "YAML", "operator<<"};
  for (int form = 0; form < 5; form++) {
    if (form == 4 && u >= 0) continue;
    LD st2[9]; const char* p = R->print(c.r.data(), form, u, &len, st2); const std::string got = sstr(p, len);
    const std::string want = ref_text(form, n, num, has_unit, ab);
    if (got != want) return Verdict::fail(fmt("%s<%s>: %s(%s) = \"%s\", the stated layout is \"%s\"", R->name, ntinfo(nt).name, fn[form], u >= 0 ? R->unit_names[u] : "", got.c_str(), want.c_str()));
    if (form == 1) {
      Json j(got);
      if (!j.parse()) return Verdict::fail(fmt("%s<%s>: JSON(%s) = \"%s\" is not valid JSON (RFC 8259), error at offset %zu", R->name, ntinfo(nt).name, u >= 0 ? R->unit_names[u] : "", got.c_str(), j.p));
      if ((int)j.numbers.size() != n) return Verdict::fail(fmt("%s<%s>: JSON \"%s\" has %zu numeric fields, expected %d", R->name, ntinfo(nt).name, got.c_str(), j.numbers.size(), n));
      for (int i = 0; i < n; i++) if (inunit[i] == 0 ? parse_in(nt, j.numbers[(size_t)i]) != 0 : !same_bits(nt, parse_in(nt, j.numbers[(size_t)i]), inunit[i]))
        return Verdict::fail(fmt("%s<%s>: JSON field %d \"%s\" does not parse back to the component %s", R->name, ntinfo(nt).name, i, j.numbers[(size_t)i].c_str(), hexld(inunit[i]).c_str()));
      if (has_unit && (j.strings.size() != 1 || j.strings[0] != ab)) return Verdict::fail(fmt("%s<%s>: JSON \"%s\" does not carry the unit \"%s\"", R->name, ntinfo(nt).name, got.c_str(), ab.c_str()));
    }
  }
  Verdict V; V.cls = std::string(ntinfo(nt).name) + ";ncomp" + std::to_string(n) + (has_unit ? (u >= 0 ? (u == R->standard ? ";standard-unit" : ";other-unit") : ";no-unit-argument") : ";dimensionless");
  V.nontrivial = n == 1 || distinct_comps(inunit, n);
  V.show = fmt("%s<%s> %s", R->name, ntinfo(nt).name, ref_text(0, n, num, has_unit, ab).c_str());
  return V;
}

// ================================================================================================ C15 number level
static LD from_bits(int nt, uint64_t lo, uint64_t hi) {
  if (nt == 0) { uint32_t b = (uint32_t)lo; float f; std::memcpy(&f, &b, 4); return f; }
  if (nt == 1) { double f; std::memcpy(&f, &lo, 8); return f; }
  LD v = 0; unsigned char buf[16] = {0}; std::memcpy(buf, &lo, 8); uint16_t se = (uint16_t)hi; std::memcpy(buf + 8, &se, 2); std::memcpy(&v, buf, 10); return v;
}
static int max_digits10(int nt) { return nt == 0 ? 9 : nt == 1 ? 17 : 21; }
// returns "" if the text is the canonical form of x, else a description
static std::string number_format_error(int nt, LD x, const std::string& t) {
  const int want = max_digits10(nt) + 1;
  const LD a = std::fabs(x);
  if (x == 0) return t == "0" ? "" : "zero must print as 0";
  size_t p = 0; if (t[p] == '-') p++;
  if ((x < 0) != (t[0] == '-')) return "sign";
  // 0.001 is not representable in binary: decide |x| >= 0.001 exactly as 1000 |x| >= 1 in binary128 (64 + 10 bits: the product is exact)
  const bool fixed = (Q)a * 1000 >= 1 && a < (LD)10000;
  const size_t epos = t.find('e');
  if (fixed != (epos == std::string::npos)) return fixed ? "fixed notation expected for 0.001 <= |x| < 10000" : "scientific notation expected outside [0.001, 10000)";
  std::string mant = t.substr(p, epos == std::string::npos ? std::string::npos : epos - p);
  const size_t dot = mant.find('.');
  if (dot == std::string::npos || dot == 0 || dot + 1 >= mant.size()) return "malformed mantissa";
  std::string digits;
  for (char ch : mant) { if (ch == '.') continue; if (ch < '0' || ch > '9') return "unexpected character"; digits += ch; }
  if (!fixed) {
    if (dot != 1 || mant[0] == '0') return "scientific mantissa must be d.ddd with a non-zero leading digit";
    const std::string ex = t.substr(epos + 1);
    if (ex.size() < 3 || (ex[0] != '+' && ex[0] != '-')) return "exponent must be e[+-]dd";
    for (size_t k = 1; k < ex.size(); k++) if (ex[k] < '0' || ex[k] > '9') return "exponent digits";
  } else {
    if (dot > 1 && mant[0] == '0') return "leading zero";
  }
  size_t lead = 0; while (lead < digits.size() && digits[lead] == '0') lead++;
  const int sig = (int)(digits.size() - lead);
  if (sig != want) return fmt("%d significant digits, expected max_digits10 + 1 = %d", sig, want);
  return "";
}
static Verdict check_number(int nt, LD x, const VfQuantity* R) {
  unsigned long len; const char* p = R->print_number(x, &len); const std::string t(p, len);
  const std::string err = number_format_error(nt, x, t);
  if (!err.empty()) return Verdict::fail(fmt("Print<%s>(%s) = \"%s\": %s", ntinfo(nt).name, hexld(x).c_str(), t.c_str(), err.c_str()));
  LD back = 0; if (!R->parse_number(t.data(), t.size(), &back)) return Verdict::fail(fmt("ParseNumber<%s>(\"%s\") has no value (printed from %s)", ntinfo(nt).name, t.c_str(), hexld(x).c_str()));
  if (x == 0 ? back != 0 : !same_bits(nt, back, x)) return Verdict::fail(fmt("ParseNumber<%s>(Print(%s)) = ParseNumber(\"%s\") = %s: not the same number", ntinfo(nt).name, hexld(x).c_str(), t.c_str(), hexld(back).c_str()));
  return Verdict();
}
static bool is_normal_in(int nt, LD x) { if (x == 0) return true; if (!std::isfinite(x)) return false; const LD a = std::fabs(x); return a >= std::ldexp((LD)1, ntinfo(nt).emin) && a < std::ldexp((LD)2, ntinfo(nt).emax); }
// a block of consecutive float bit patterns (exhaustive tier) or a strided sweep (quick tier)
static Verdict c15_float_block(const Case& c) {
  const uint64_t start = (uint64_t)c.i[0], count = (uint64_t)c.i[1], stride = (uint64_t)c.i[2];
  const VfQuantity* R = row(0, 0);
  long evals = 0;
  for (uint64_t k = 0; k < count; k++) {
    const uint64_t b = start + k * stride; if (b > 0xffffffffull) break;
    const LD x = from_bits(0, b, 0);
    if (!is_normal_in(0, x)) continue;
    evals++;
    Verdict v = check_number(0, x, R);
    if (!v.ok) { v.msg += fmt(" [bit pattern 0x%08llx]", (unsigned long long)b); return v; }
  }
  Verdict V; V.sub_evals = evals; V.sub_nontrivial = evals; V.nontrivial = evals > 0; V.cls = stride == 1 ? "float;consecutive-bit-patterns" : "float;strided-bit-patterns";
  V.show = fmt("float bit patterns 0x%08llx + k*%llu, k < %llu: %ld normal values", (unsigned long long)start, (unsigned long long)stride, (unsigned long long)count, evals);
  return V;
}
static Verdict c15_number(const Case& c) {
  const int nt = (int)c.i[0]; const LD x = c.r[0];
  if (!is_normal_in(nt, x)) return Verdict::skip("not-normal");
  Verdict V = check_number(nt, x, row(nt, 0));
  if (!V.ok) return V;
  const LD a = std::fabs(x);
  V.cls = std::string(ntinfo(nt).name) + (x == 0 ? ";zero" : (Q)a * 1000 < 1 ? ";scientific-small" : a < 10000 ? ";fixed" : ";scientific-large"); V.nontrivial = x != 0;
  return V;
}
// boundary neighbourhoods of every notation interval, stratified random bit patterns over every binade
static rc::Gen<Case> gen_c15_number(int nt) {
  static const LD bounds[] = {0.001L, 0.01L, 0.1L, 1, 10, 100, 1000, 10000, 100000, 1e-4L};
  auto near = rc::gen::map(rc::gen::tuple(rc::gen::elementOf(std::vector<LD>(bounds, bounds + 10)), irange(-64, 64), irange(0, 1)), [=](const std::tuple<LD, int, int>& t) {
    LD b = round_to(nt, std::get<0>(t)); const int k = std::get<1>(t);
    // k-th neighbour of the rounded boundary in type nt
    LD x = b; for (int i = 0; i < std::abs(k); i++) x = k > 0 ? x + ulp_at(nt, x) : x - ulp_at(nt, std::nextafter(x, (LD)0) );
    x = round_to(nt, x); return std::get<2>(t) ? -x : x; });
  auto edges = rc::gen::map(rc::gen::tuple(irange(0, 3), irange(0, 32), irange(0, 1)), [=](const std::tuple<int, int, int>& t) {
    const LD mn = std::ldexp((LD)1, ntinfo(nt).emin), mx = std::ldexp((LD)2 - eps_of(nt), ntinfo(nt).emax); const int k = std::get<1>(t);
    LD x = std::get<0>(t) == 0 ? mn + k * ulp_at(nt, mn) : std::get<0>(t) == 1 ? mx - k * ulp_at(nt, mx) : std::get<0>(t) == 2 ? (LD)0 : std::ldexp((LD)1, k - 16);
    return std::get<2>(t) ? -x : x; });
  auto strat = gen_real(nt, ntinfo(nt).emin, ntinfo(nt).emax, kNeg | kZero);
  auto mid = gen_real(nt, -14, 18, kNeg);
  return rc::gen::map(rc::gen::oneOf(near, edges, strat, strat, mid, mid), [=](LD x) { Case c; c.i = {nt}; c.r = {x}; return c; });
}

// ================================================================================================
int main(int argc, char** argv) {
  load_rows(); load_ufactors();
  for (int q = 0; q < NQ(); q++) if (row(0, q)->kind == 0) g_dimensional.push_back(q);
  std::vector<Sub> subs;
  auto iname = [](int inst) { return std::string(row(inst / NQ() % 3, inst % NQ())->name) + "/" + ntinfo(inst / NQ() % 3).name; };
  {
    Sub s; s.name = "c02.quantity"; s.property = "C02"; s.instances = (int)g_dimensional.size() * 3; s.n_quick = 600; s.n_thorough = 6000;
    s.gen = [](int inst) {
      const int nd = (int)g_dimensional.size(); const int q = g_dimensional[(size_t)(inst % nd)], nt = inst / nd;
      const VfQuantity* R = row(nt, q);
      const int ww = nt == 0 ? 120 : nt == 1 ? 1010 : 16000;   // slots whose conversion leaves the normal range are skipped one by one
      return rc::gen::map(rc::gen::tuple(irange(0, R->n_units - 1), irange(0, R->n_units - 1), rc::gen::oneOf(gen_reals(R->ncomp, nt, -win(nt), win(nt), kNeg | kZero), gen_reals(R->ncomp, nt, -ww, ww, kNeg | kZero))),
                          [=](const std::tuple<int, int, std::vector<LD>>& t) { Case c; c.i = {q, nt, std::get<0>(t), std::get<1>(t)}; c.r = std::get<2>(t); return c; });
    };
    s.run = c02_quantity;
    s.instance_name = [](int inst) { const int nd = (int)g_dimensional.size(); return std::string(row(inst / nd, g_dimensional[(size_t)(inst % nd)])->name) + "/" + ntinfo(inst / nd).name; };
    s.rule = "enumerated: every dimensional quantity type x numeric type; generated: unit of construction, unit of read-out, component values; every entry point (Q(v,u), Create<u> x3 overloads, Value(u), StaticValue<u>, numbers inside "
             "Print/JSON/XML/YAML(u)) against the plain scalar PhQ::Convert slot by slot (<= 1 ulp), read-back in the same unit (<= 2 ulp); non-trivial: a non-standard unit involved and components pairwise distinct";
    subs.push_back(s);
  }
  {
    Sub s; s.name = "c14.order"; s.property = "C14"; s.instances = NQ() * 3; s.n_quick = 2000; s.n_thorough = 40000; s.gen = gen_c14_order; s.run = c14_order; s.instance_name = iname;
    s.rule = "triples (a,b,c) with forced ties in leading components from a pool {-max,-1,-min,-0,+0,min,1,1+eps,max,+-inf} + random values; all six operators on all nine ordered pairs against lexicographic comparison of the stored "
             "components; equal => equal hash; non-trivial: scalar, or tie length >= 1, or a +0/-0 pair";
    subs.push_back(s);
  }
  {
    Sub s; s.name = "c14.containers"; s.property = "C14"; s.instances = NQ() * 3; s.n_quick = 200; s.n_thorough = 4000; s.gen = gen_c14_containers; s.run = c14_containers; s.instance_name = iname;
    s.rule = "collections of 1..40 objects with duplicates inserted into std::set and std::unordered_set: sizes equal the oracle's number of distinct values, every member found again; non-trivial: duplicates present and >= 2 distinct";
    subs.push_back(s);
  }
  {
    Sub s; s.name = "c16.cast"; s.property = "C16"; s.instances = NQ() * 12; s.n_quick = 500; s.n_thorough = 10000; s.gen = gen_c16; s.run = c16_cast;
    s.instance_name = [](int inst) { return std::string(row(0, inst % NQ())->name) + "/pair" + std::to_string(inst / NQ() / 2) + (inst / NQ() % 2 ? "/assign" : "/construct"); };
    s.rule = "every quantity type x 6 ordered pairs of numeric types x {converting constructor, converting assignment}; components with full mantissas inside the narrower type's finite range; slot i must have the bits of "
             "static_cast<T2>(slot i); widen then narrow is the identity; directions: within 2 ulp of the cast and unit length within 4 ulp; non-trivial: components pairwise distinct and (inexact narrowing or widening round trip)";
    subs.push_back(s);
  }
  {
    Sub s; s.name = "c17.layout"; s.property = "C17"; s.instances = NQ() * 3; s.n_quick = 1; s.n_thorough = 1; s.exhaustive = true; s.instance_name = iname;
    s.gen = [](int inst) { Case c; c.i = {inst % NQ(), inst / NQ()}; return rc::gen::just(c); };
    s.run = c17_layout;
    s.rule = "exhaustive over quantity types x numeric types: sizeof = n x sizeof(T), alignof, trivially copyable, standard layout, not polymorphic, Zero() all +0";
    subs.push_back(s);
  }
  {
    Sub s; s.name = "c17.memcpy"; s.property = "C17"; s.instances = NQ() * 3; s.n_quick = 100; s.n_thorough = 2000; s.run = c17_memcpy; s.instance_name = iname;
    s.gen = [](int inst) {
      const int q = inst % NQ(), nt = inst / NQ(); const int n = row(nt, q)->ncomp; const bool dir = row(nt, q)->kind == 2;
      return rc::gen::mapcat(irange(1, 9), [=](int count) { return rc::gen::map(gen_reals(count * n, nt, dir ? -2 : -100, dir ? 2 : 100, kNeg | kZero), [=](const std::vector<LD>& v) { Case c; c.i = {q, nt}; c.r = v; return c; }); });
    };
    s.rule = "arrays of 1..9 x n raw numbers memcpy'd over arrays of quantities and read back through Value(): identical bits; non-trivial: >= 2 elements";
    subs.push_back(s);
  }
  {
    Sub s; s.name = "c17.history"; s.property = "C17"; s.instances = NQ() * 3; s.n_quick = 200; s.n_thorough = 4000; s.gen = gen_c17_history; s.run = c17_history; s.instance_name = iname;
    s.rule = "histories of 1..12 mutator steps (SetValue, MutableValue()=, Mutable_<c>()=, Set_<c>(), copy round trip, memcpy round trip, copy / move assignment of a new value; also steps whose new value is all zeros or the held value with the signs of its zeros flipped - equal under ==, different bits) against a plain array of numbers, compared bit for bit after every step; non-trivial: >= 2 kinds of step";
    subs.push_back(s);
  }
  {
    Sub s; s.name = "c15.composite"; s.property = "C15"; s.instances = NQ() * 3; s.n_quick = 400; s.n_thorough = 6000; s.run = c15_composite; s.instance_name = iname;
    s.gen = [](int inst) {
      const int q = inst % NQ(), nt = inst / NQ(); const VfQuantity* R = row(nt, q);
      const int w = R->kind == 2 ? 3 : (nt == 0 ? 14 : 40);
      return rc::gen::map(rc::gen::tuple(irange(0, 200), gen_reals(R->ncomp, nt, -w, w, kNeg | kZero)), [=](const std::tuple<int, std::vector<LD>>& t) { Case c; c.i = {q, nt, std::get<0>(t)}; c.r = std::get<1>(t); return c; });
    };
    s.rule = "every quantity type x numeric type; generated unit (or none) and components; Print/JSON/XML/YAML/operator<< must equal a reference formatter written from the statement, assembled from PhQ::Print(component in that unit) "
             "and the abbreviation; JSON accepted by a strict RFC 8259 parser and every numeric field parses back to the component bit for bit; non-trivial: components pairwise distinct";
    subs.push_back(s);
  }
  {
    Sub s; s.name = "c15.numbers"; s.property = "C15"; s.instances = 3; s.n_quick = 300000; s.n_thorough = 3000000; s.gen = gen_c15_number; s.run = c15_number;
    s.instance_name = [](int inst) { return std::string(ntinfo(inst).name); };
    s.rule = "Print<T>(x) for finite normal x in float, double, long double: +-64 neighbours of every notation boundary (0.0001 ... 100000), the ends of the normal range, random bit patterns stratified over every binade, and a dense "
             "middle range; oracle: fixed notation iff 0.001 <= |x| < 10000, exactly max_digits10 + 1 significant digits counted from the first non-zero digit, d.ddde[+-]dd in scientific notation, 0 for +-0, "
             "ParseNumber<T>(Print(x)) has the bits of x; non-trivial: x != 0";
    subs.push_back(s);
  }
  {
    // quick: every 997th float bit pattern (4.3 M values); thorough (bin/check runs 16 shards in parallel): ALL 2^32 bit patterns
    const bool thorough = argc > 2 && std::string(argv[2]) == "thorough";
    const bool exhaustive = thorough || (argc > 1 && std::string(argv[1]) == "replay");
    Sub s; s.name = exhaustive ? "c15.float_all" : "c15.float_sweep"; s.property = "C15"; s.n_quick = 1; s.n_thorough = 1; s.exhaustive = exhaustive; s.run = c15_float_block;
    if (exhaustive) { s.instances = 4096; s.gen = [](int inst) { Case c; c.i = {(long long)inst << 20, 1 << 20, 1}; return rc::gen::just(c); }; }
    else { s.instances = 64; s.gen = [](int inst) { Case c; c.i = {(long long)inst * 997 * 67324 + (long long)(env_seed() % 997), 67324, 997}; return rc::gen::just(c); }; }
    s.rule = exhaustive ? "exhaustive: all 2^32 float bit patterns (normal values), same oracle" : "every 997th float bit pattern (offset by the seed), same oracle";
    subs.push_back(s);
    if (argc > 1 && std::string(argv[1]) == "replay") { Sub s2 = s; s2.name = "c15.float_sweep"; subs.push_back(s2); }
  }
  return engine_main(argc, argv, subs);
}
