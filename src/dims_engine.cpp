// C06 (generated part): Dimensions prints exactly the non-zero exponents in the order T, L, M, I, Theta, N, J, "1" when dimensionless,
// streaming equals printing; equality, ordering and hash are those of the exponent 7-tuple (also C14 for Dimensions and the seven base
// Dimension classes).
#include <PhQ/Dimensions.hpp>
#include <set>
#include <sstream>
#include <unordered_set>
#include "engine.hpp"

using namespace vf;
using PhQ::Dimensions;
namespace Dm = PhQ::Dimension;

static Dimensions mk(const long long* e) {
  return Dimensions(Dm::Time{(int8_t)e[0]}, Dm::Length{(int8_t)e[1]}, Dm::Mass{(int8_t)e[2]}, Dm::ElectricCurrent{(int8_t)e[3]}, Dm::Temperature{(int8_t)e[4]}, Dm::SubstanceAmount{(int8_t)e[5]}, Dm::LuminousIntensity{(int8_t)e[6]});
}
static std::string tup(const long long* e) { std::string s = "("; for (int i = 0; i < 7; i++) { if (i) s += ","; s += std::to_string(e[i]); } return s + ")"; }
// reference printer written from the statement
static std::string ref_print(const long long* e) {
  static const char* sym[7] = {"T", "L", "M", "I", "Θ", "N", "J"};
  std::string s;
  for (int i = 0; i < 7; i++) {
    if (e[i] == 0) continue;
    if (!s.empty()) s += "·";
    s += sym[i];
    if (e[i] > 1) s += "^" + std::to_string(e[i]); else if (e[i] < 0) s += "^(" + std::to_string(e[i]) + ")";
  }
  return s.empty() ? "1" : s;
}
// serialisations of a dimension set, written from the documented layout: only the non-zero exponents, in the order T, L, M, I, Theta, N, J
static std::string ref_serial(const long long* e, int form) {
  static const char* key[7] = {"time", "length", "mass", "electric_current", "temperature", "substance_amount", "luminous_intensity"};
  std::string s;
  for (int i = 0; i < 7; i++) {
    if (e[i] == 0) continue;
    const std::string v = std::to_string(e[i]);
    if (form == 1) { if (!s.empty()) s += ","; s += std::string("\"") + key[i] + "\":" + v; }
    else if (form == 2) { s += std::string("<") + key[i] + ">" + v + "</" + key[i] + ">"; }
    else { if (!s.empty()) s += ","; s += std::string(key[i]) + ":" + v; }
  }
  return form == 2 ? s : "{" + s + "}";
}
static std::string check_serial(const long long* e) {
  const Dimensions d = mk(e);
  static const char* fn[] = {"", "JSON", "XML", "YAML"};
  for (int form = 1; form <= 3; form++) {
    const std::string got = form == 1 ? d.JSON() : form == 2 ? d.XML() : d.YAML();
    const std::string want = ref_serial(e, form);
    if (got != want) return fmt("Dimensions%s.%s() = \"%s\", the documented layout is \"%s\"", tup(e).c_str(), fn[form], got.c_str(), want.c_str());
  }
  return "";
}
static std::string check_one(const long long* e) {
  const Dimensions d = mk(e);
  const int got[7] = {d.Time().Value(), d.Length().Value(), d.Mass().Value(), d.ElectricCurrent().Value(), d.Temperature().Value(), d.SubstanceAmount().Value(), d.LuminousIntensity().Value()};
  for (int i = 0; i < 7; i++) if (got[i] != e[i]) return fmt("Dimensions%s reports exponent %d = %d", tup(e).c_str(), i, got[i]);
  const std::string p = d.Print(), want = ref_print(e);
  if (p != want) return fmt("Dimensions%s prints as \"%s\", the stated form is \"%s\"", tup(e).c_str(), p.c_str(), want.c_str());
  std::ostringstream os; os << d; if (os.str() != p) return fmt("Dimensions%s streams as \"%s\" but prints as \"%s\"", tup(e).c_str(), os.str().c_str(), p.c_str());
  return "";
}
static int lex(const long long* a, const long long* b) { for (int i = 0; i < 7; i++) { if (a[i] < b[i]) return -1; if (a[i] > b[i]) return 1; } return 0; }
static std::string check_pair(const long long* a, const long long* b) {
  const Dimensions x = mk(a), y = mk(b);
  const int c = lex(a, b);
  const int got = (x == y ? 1 : 0) | (x != y ? 2 : 0) | (x < y ? 4 : 0) | (x > y ? 8 : 0) | (x <= y ? 16 : 0) | (x >= y ? 32 : 0);
  const int want = (c == 0 ? 1 : 0) | (c != 0 ? 2 : 0) | (c < 0 ? 4 : 0) | (c > 0 ? 8 : 0) | (c <= 0 ? 16 : 0) | (c >= 0 ? 32 : 0);
  if (got != want) return fmt("Dimensions%s vs %s: comparison mask (==,!=,<,>,<=,>=) is %d, the 7-tuples compare as %d", tup(a).c_str(), tup(b).c_str(), got, want);
  if (c == 0 && std::hash<Dimensions>()(x) != std::hash<Dimensions>()(y)) return fmt("equal Dimensions%s hash differently", tup(a).c_str());
  return "";
}
// exhaustive: the box [-1,1]^7, every element and every ordered pair
static Verdict c06_box(const Case& c) {
  const int part = (int)c.i[0];   // 27 parts: the first three exponents of the left operand
  long long a[7], b[7]; long evals = 0;
  a[0] = part % 3 - 1; a[1] = (part / 3) % 3 - 1; a[2] = (part / 9) % 3 - 1;
  for (int r = 0; r < 81; r++) {
    int q = r; for (int i = 3; i < 7; i++) { a[i] = q % 3 - 1; q /= 3; }
    std::string m = check_one(a); if (m.empty()) m = check_serial(a); evals++; if (!m.empty()) return Verdict::fail(m);
    for (int s = 0; s < 2187; s++) { int t = s; for (int i = 0; i < 7; i++) { b[i] = t % 3 - 1; t /= 3; } const std::string m2 = check_pair(a, b); evals++; if (!m2.empty()) return Verdict::fail(m2); }
  }
  Verdict V; V.sub_evals = evals; V.sub_nontrivial = evals; V.nontrivial = true; V.cls = "box[-1,1]^7"; V.show = fmt("all ordered pairs with left operand prefix (%lld,%lld,%lld): %ld checks", a[0], a[1], a[2], evals); return V;
}
static Verdict c06_random(const Case& c) {
  const long long* a = &c.i[0]; const long long* b = &c.i[7];
  std::string m = check_one(a); if (m.empty()) m = check_one(b); if (m.empty()) m = check_pair(a, b); if (m.empty()) m = check_pair(b, a); if (m.empty()) m = check_serial(a); if (m.empty()) m = check_serial(b);
  if (!m.empty()) return Verdict::fail(m);
  // a collection of dimension sets in ordered and unordered containers: sizes = number of distinct tuples, every member found
  std::set<Dimensions> os; std::unordered_set<Dimensions> us; std::set<std::vector<long long>> model;
  const int n = (int)((c.i.size() - 14) / 7);
  for (int k = 0; k < n; k++) { const long long* e = &c.i[(size_t)(14 + 7 * k)]; os.insert(mk(e)); us.insert(mk(e)); model.insert(std::vector<long long>(e, e + 7)); }
  if (os.size() != model.size() || us.size() != model.size()) return Verdict::fail(fmt("%d Dimensions with %zu distinct tuples: std::set holds %zu, std::unordered_set holds %zu", n, model.size(), os.size(), us.size()));
  for (int k = 0; k < n; k++) { const long long* e = &c.i[(size_t)(14 + 7 * k)]; if (!os.count(mk(e)) || !us.count(mk(e))) return Verdict::fail(fmt("Dimensions%s not found again in a standard container", tup(e).c_str())); }
  Verdict V; int tie = 0; while (tie < 7 && a[tie] == b[tie]) tie++;
  V.cls = "tie" + std::to_string(tie); V.nontrivial = tie >= 1 && tie < 7; V.show = fmt("%s \"%s\" vs %s \"%s\"", tup(a).c_str(), ref_print(a).c_str(), tup(b).c_str(), ref_print(b).c_str());
  return V;
}
// the seven base dimension classes: order / equality / hash on the exponent (C14), printing X, X^n, X^(-n)
template <class D> static std::string base_check(const char* sym, int a, int b) {
  const D x{(int8_t)a}, y{(int8_t)b};
  const int got = (x == y ? 1 : 0) | (x != y ? 2 : 0) | (x < y ? 4 : 0) | (x > y ? 8 : 0) | (x <= y ? 16 : 0) | (x >= y ? 32 : 0);
  const int want = (a == b ? 1 : 0) | (a != b ? 2 : 0) | (a < b ? 4 : 0) | (a > b ? 8 : 0) | (a <= b ? 16 : 0) | (a >= b ? 32 : 0);
  if (got != want) return fmt("Dimension %s: {%d} vs {%d}: comparison mask %d, expected %d", sym, a, b, got, want);
  if (a == b && std::hash<D>()(x) != std::hash<D>()(y)) return fmt("Dimension %s: equal exponents hash differently", sym);
  const std::string want_p = a == 0 ? "" : a == 1 ? std::string(sym) : a > 1 ? std::string(sym) + "^" + std::to_string(a) : std::string(sym) + "^(" + std::to_string(a) + ")";
  if (x.Print() != want_p) return fmt("Dimension %s{%d} prints \"%s\", expected \"%s\"", sym, a, x.Print().c_str(), want_p.c_str());
  return "";
}
static Verdict c14_base(const Case& c) {
  const int which = (int)c.i[0]; long evals = 0;
  for (int a = -128; a <= 127; a++) for (int b = -128; b <= 127; b++) {
    std::string m;
    switch (which) { case 0: m = base_check<Dm::Time>("T", a, b); break; case 1: m = base_check<Dm::Length>("L", a, b); break; case 2: m = base_check<Dm::Mass>("M", a, b); break; case 3: m = base_check<Dm::ElectricCurrent>("I", a, b); break;
      case 4: m = base_check<Dm::Temperature>("Θ", a, b); break; case 5: m = base_check<Dm::SubstanceAmount>("N", a, b); break; default: m = base_check<Dm::LuminousIntensity>("J", a, b); }
    evals++; if (!m.empty()) return Verdict::fail(m);
  }
  Verdict V; V.sub_evals = evals; V.sub_nontrivial = evals; V.nontrivial = true; V.cls = "base-dimension"; return V;
}
int main(int argc, char** argv) {
  std::vector<Sub> subs;
  {
    Sub s; s.name = "c06.box"; s.property = "C06"; s.instances = 27; s.n_quick = 1; s.n_thorough = 1; s.exhaustive = true; s.run = c06_box;
    s.gen = [](int inst) { Case c; c.i = {inst}; return rc::gen::just(c); };
    s.rule = "exhaustive: all 2187 exponent tuples of the box [-1,1]^7 (printing against a reference printer written from the statement, streaming = printing, JSON / XML / YAML against the documented layout - including the dimensionless set) and all 2187^2 ordered pairs (six comparison operators = lexicographic "
             "comparison of the 7-tuples, equal => equal hash)";
    subs.push_back(s);
  }
  {
    Sub s; s.name = "c06.random"; s.property = "C06"; s.instances = 1; s.n_quick = 50000; s.n_thorough = 2000000; s.run = c06_random;
    s.gen = [](int) { return rc::gen::mapcat(irange(0, 12), [](int n) { return rc::gen::map(rc::gen::tuple(rc::gen::container<std::vector<int>>((size_t)(14 + 7 * n), rc::gen::oneOf(irange(-9, 9), irange(-9, 9), irange(-128, 127))), irange(0, 7), irange(0, 3)),
        [=](const std::tuple<std::vector<int>, int, int>& t) { Case c; for (int x : std::get<0>(t)) c.i.push_back(x); for (int i = 0; i < std::get<1>(t); i++) c.i[(size_t)(7 + i)] = c.i[(size_t)i];
          if (std::get<2>(t) == 0) for (int k = 1; k < n; k++) for (int i = 0; i < 7; i++) if ((k + i) % 2) c.i[(size_t)(14 + 7 * k + i)] = c.i[(size_t)(14 + i)]; return c; }); }); };
    s.rule = "random exponent tuples in [-9,9]^7 (two thirds) and over the whole int8 range (multi-digit exponents) with forced ties in leading exponents: printing, streaming, six operators, hash, collections of 0..12 sets in std::set / std::unordered_set; non-trivial: tie length in 1..6";
    subs.push_back(s);
  }
  {
    Sub s; s.name = "c14.base_dimensions"; s.property = "C14"; s.instances = 7; s.n_quick = 1; s.n_thorough = 1; s.exhaustive = true; s.run = c14_base;
    s.gen = [](int inst) { Case c; c.i = {inst}; return rc::gen::just(c); };
    s.rule = "exhaustive: the seven base dimension classes, all 256 x 256 exponent pairs: six operators, hash, printing X / X^n / X^(-n)";
    subs.push_back(s);
  }
  {
    Sub s; s.name = "c20.dimensions_api"; s.property = "C20"; s.instances = 1; s.n_quick = 1; s.n_thorough = 1; s.exhaustive = true;
    s.gen = [](int) { Case c; return rc::gen::just(c); };
    s.run = [](const Case&) { long long e[7]; long n = 0; for (int t = 0; t < 2187; t++) { int q = t; for (int i = 0; i < 7; i++) { e[i] = q % 3 - 1; q /= 3; } std::string m = check_one(e); if (m.empty()) m = check_serial(e); n++; if (!m.empty()) return Verdict::fail(m); }
      Verdict V; V.sub_evals = n; V.sub_nontrivial = n; V.nontrivial = true; V.cls = "Print/JSON/XML/YAML/stream on the box [-1,1]^7"; return V; };
    s.rule = "every public member of Dimensions that produces text (Print, JSON, XML, YAML, operator<<) on all 2187 tuples of [-1,1]^7, the dimensionless set included - run in the sanitizer flavour for C20";
    subs.push_back(s);
  }
  { Sub s = subs[1]; s.name = "c14.dimensions"; s.property = "C14"; s.n_quick = 20000; s.n_thorough = 500000; subs.push_back(s); }
  return engine_main(argc, argv, subs);
}
