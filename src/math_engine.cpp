// C09: PlanarVector, Vector, SymmetricDyad, Dyad implement Cartesian tensor algebra.  Also the math-type parts of C14
// (order / equality / hash) and C16 (precision casts).  This translation unit includes both PhQ and the engine.
#include <PhQ/Dyad.hpp>
#include <PhQ/PlanarVector.hpp>
#include <PhQ/SymmetricDyad.hpp>
#include <PhQ/Vector.hpp>
#include <PhQ/Direction.hpp>
#include <PhQ/PlanarDirection.hpp>
#include <set>
#include <sstream>
#include <unordered_set>
#include "engine.hpp"

using namespace vf;
using PhQ::Dyad; using PhQ::PlanarVector; using PhQ::SymmetricDyad; using PhQ::Vector;

// shapes: 1 number, 2 planar vector, 3 vector, 6 symmetric dyad, 9 dyad
template <class T> static PlanarVector<T> mk2(const LD* c) { return PlanarVector<T>((T)c[0], (T)c[1]); }
template <class T> static Vector<T> mk3(const LD* c) { return Vector<T>((T)c[0], (T)c[1], (T)c[2]); }
template <class T> static SymmetricDyad<T> mk6(const LD* c) { return SymmetricDyad<T>((T)c[0], (T)c[1], (T)c[2], (T)c[3], (T)c[4], (T)c[5]); }
template <class T> static Dyad<T> mk9(const LD* c) { return Dyad<T>((T)c[0], (T)c[1], (T)c[2], (T)c[3], (T)c[4], (T)c[5], (T)c[6], (T)c[7], (T)c[8]); }
template <class T> static void fl(T v, LD* o) { o[0] = v; }
template <class T> static void fl(const PlanarVector<T>& v, LD* o) { o[0] = v.x(); o[1] = v.y(); }
template <class T> static void fl(const Vector<T>& v, LD* o) { o[0] = v.x(); o[1] = v.y(); o[2] = v.z(); }
template <class T> static void fl(const SymmetricDyad<T>& v, LD* o) { o[0] = v.xx(); o[1] = v.xy(); o[2] = v.xz(); o[3] = v.yy(); o[4] = v.yz(); o[5] = v.zz(); }
template <class T> static void fl(const Dyad<T>& v, LD* o) { o[0] = v.xx(); o[1] = v.xy(); o[2] = v.xz(); o[3] = v.yx(); o[4] = v.yy(); o[5] = v.yz(); o[6] = v.zx(); o[7] = v.zy(); o[8] = v.zz(); }

struct Op { const char* name; int na, nb, nr; bool present_flag; };   // nr 0: result is optional (Inverse), shape = na
enum OpId {
  V_DOT, V_CROSS, V_DYADIC, V_MAGSQ, V_MAG, V_ADD, V_SUB, V_MULN, V_NMUL, V_DIVN, V_FROM_PV, V_ADDEQ, V_SUBEQ, V_MULEQ, V_DIVEQ,
  P_DOT, P_CROSS, P_DYADIC, P_MAGSQ, P_MAG, P_ADD, P_SUB, P_MULN, P_NMUL, P_DIVN, P_FROM_V, P_ADDEQ, P_SUBEQ, P_MULEQ, P_DIVEQ,
  S_TRACE, S_DET, S_TRANSPOSE, S_COF, S_ADJ, S_INV, S_ADD, S_SUB, S_MULN, S_NMUL, S_DIVN, S_MULPV, S_MULV, S_MULS, S_MULD, S_ADDEQ, S_SUBEQ, S_MULEQ, S_DIVEQ, S_OFFDIAG,
  D_SYM, D_TRACE, D_DET, D_TRANSPOSE, D_COF, D_ADJ, D_INV, D_ADD, D_SUB, D_MULN, D_NMUL, D_DIVN, D_MULPV, D_MULV, D_MULS, D_MULD, D_FROM_S, D_ADDEQ, D_SUBEQ, D_MULEQ, D_DIVEQ, D_ASSIGN_S,
  N_OPS
};
static const Op kOps[N_OPS] = {
  {"Vector.Dot(Vector)", 3, 3, 1}, {"Vector.Cross(Vector)", 3, 3, 3}, {"Vector.Dyadic(Vector)", 3, 3, 9}, {"Vector.MagnitudeSquared()", 3, 0, 1}, {"Vector.Magnitude()", 3, 0, 1}, {"Vector + Vector", 3, 3, 3},
  {"Vector - Vector", 3, 3, 3}, {"Vector * number", 3, 1, 3}, {"number * Vector", 1, 3, 3}, {"Vector / number", 3, 1, 3}, {"Vector(PlanarVector)", 2, 0, 3}, {"Vector += Vector", 3, 3, 3}, {"Vector -= Vector", 3, 3, 3},
  {"Vector *= number", 3, 1, 3}, {"Vector /= number", 3, 1, 3},
  {"PlanarVector.Dot(PlanarVector)", 2, 2, 1}, {"PlanarVector.Cross(PlanarVector)", 2, 2, 3}, {"PlanarVector.Dyadic(PlanarVector)", 2, 2, 9}, {"PlanarVector.MagnitudeSquared()", 2, 0, 1}, {"PlanarVector.Magnitude()", 2, 0, 1},
  {"PlanarVector + PlanarVector", 2, 2, 2}, {"PlanarVector - PlanarVector", 2, 2, 2}, {"PlanarVector * number", 2, 1, 2}, {"number * PlanarVector", 1, 2, 2}, {"PlanarVector / number", 2, 1, 2}, {"PlanarVector(Vector)", 3, 0, 2},
  {"PlanarVector += PlanarVector", 2, 2, 2}, {"PlanarVector -= PlanarVector", 2, 2, 2}, {"PlanarVector *= number", 2, 1, 2}, {"PlanarVector /= number", 2, 1, 2},
  {"SymmetricDyad.Trace()", 6, 0, 1}, {"SymmetricDyad.Determinant()", 6, 0, 1}, {"SymmetricDyad.Transpose()", 6, 0, 6}, {"SymmetricDyad.Cofactors()", 6, 0, 6}, {"SymmetricDyad.Adjugate()", 6, 0, 6}, {"SymmetricDyad.Inverse()", 6, 0, 0},
  {"SymmetricDyad + SymmetricDyad", 6, 6, 6}, {"SymmetricDyad - SymmetricDyad", 6, 6, 6}, {"SymmetricDyad * number", 6, 1, 6}, {"number * SymmetricDyad", 1, 6, 6}, {"SymmetricDyad / number", 6, 1, 6},
  {"SymmetricDyad * PlanarVector", 6, 2, 3}, {"SymmetricDyad * Vector", 6, 3, 3}, {"SymmetricDyad * SymmetricDyad", 6, 6, 9}, {"SymmetricDyad * Dyad", 6, 9, 9},
  {"SymmetricDyad += SymmetricDyad", 6, 6, 6}, {"SymmetricDyad -= SymmetricDyad", 6, 6, 6}, {"SymmetricDyad *= number", 6, 1, 6}, {"SymmetricDyad /= number", 6, 1, 6}, {"SymmetricDyad.yx/zx/zy()", 6, 0, 3},
  {"Dyad.IsSymmetric()", 9, 0, 1}, {"Dyad.Trace()", 9, 0, 1}, {"Dyad.Determinant()", 9, 0, 1}, {"Dyad.Transpose()", 9, 0, 9}, {"Dyad.Cofactors()", 9, 0, 9}, {"Dyad.Adjugate()", 9, 0, 9}, {"Dyad.Inverse()", 9, 0, 0},
  {"Dyad + Dyad", 9, 9, 9}, {"Dyad - Dyad", 9, 9, 9}, {"Dyad * number", 9, 1, 9}, {"number * Dyad", 1, 9, 9}, {"Dyad / number", 9, 1, 9}, {"Dyad * PlanarVector", 9, 2, 3}, {"Dyad * Vector", 9, 3, 3},
  {"Dyad * SymmetricDyad", 9, 6, 9}, {"Dyad * Dyad", 9, 9, 9}, {"Dyad(SymmetricDyad)", 6, 0, 9}, {"Dyad += Dyad", 9, 9, 9}, {"Dyad -= Dyad", 9, 9, 9}, {"Dyad *= number", 9, 1, 9}, {"Dyad /= number", 9, 1, 9}, {"Dyad = SymmetricDyad", 6, 0, 9},
};
static int res_shape(int op) { return kOps[op].nr ? kOps[op].nr : kOps[op].na; }

// ---- library side ---------------------------------------------------------------------------------------------
template <class T> static bool lib_op(int op, const LD* a, const LD* b, LD* out) {  // returns false when an optional result is absent
  switch (op) {
    case V_DOT: fl(mk3<T>(a).Dot(mk3<T>(b)), out); break; case V_CROSS: fl(mk3<T>(a).Cross(mk3<T>(b)), out); break; case V_DYADIC: fl(mk3<T>(a).Dyadic(mk3<T>(b)), out); break;
    case V_MAGSQ: fl(mk3<T>(a).MagnitudeSquared(), out); break; case V_MAG: fl(mk3<T>(a).Magnitude(), out); break; case V_ADD: fl(mk3<T>(a) + mk3<T>(b), out); break; case V_SUB: fl(mk3<T>(a) - mk3<T>(b), out); break;
    case V_MULN: fl(mk3<T>(a) * (T)b[0], out); break; case V_NMUL: fl((T)a[0] * mk3<T>(b), out); break; case V_DIVN: fl(mk3<T>(a) / (T)b[0], out); break; case V_FROM_PV: fl(Vector<T>(mk2<T>(a)), out); break;
    case V_ADDEQ: { auto x = mk3<T>(a); x += mk3<T>(b); fl(x, out); } break; case V_SUBEQ: { auto x = mk3<T>(a); x -= mk3<T>(b); fl(x, out); } break;
    case V_MULEQ: { auto x = mk3<T>(a); x *= (T)b[0]; fl(x, out); } break; case V_DIVEQ: { auto x = mk3<T>(a); x /= (T)b[0]; fl(x, out); } break;
    case P_DOT: fl(mk2<T>(a).Dot(mk2<T>(b)), out); break; case P_CROSS: fl(mk2<T>(a).Cross(mk2<T>(b)), out); break; case P_DYADIC: fl(mk2<T>(a).Dyadic(mk2<T>(b)), out); break;
    case P_MAGSQ: fl(mk2<T>(a).MagnitudeSquared(), out); break; case P_MAG: fl(mk2<T>(a).Magnitude(), out); break; case P_ADD: fl(mk2<T>(a) + mk2<T>(b), out); break; case P_SUB: fl(mk2<T>(a) - mk2<T>(b), out); break;
    case P_MULN: fl(mk2<T>(a) * (T)b[0], out); break; case P_NMUL: fl((T)a[0] * mk2<T>(b), out); break; case P_DIVN: fl(mk2<T>(a) / (T)b[0], out); break; case P_FROM_V: fl(PlanarVector<T>(mk3<T>(a)), out); break;
    case P_ADDEQ: { auto x = mk2<T>(a); x += mk2<T>(b); fl(x, out); } break; case P_SUBEQ: { auto x = mk2<T>(a); x -= mk2<T>(b); fl(x, out); } break;
    case P_MULEQ: { auto x = mk2<T>(a); x *= (T)b[0]; fl(x, out); } break; case P_DIVEQ: { auto x = mk2<T>(a); x /= (T)b[0]; fl(x, out); } break;
    case S_TRACE: fl(mk6<T>(a).Trace(), out); break; case S_DET: fl(mk6<T>(a).Determinant(), out); break; case S_TRANSPOSE: fl(mk6<T>(a).Transpose(), out); break; case S_COF: fl(mk6<T>(a).Cofactors(), out); break;
    case S_ADJ: fl(mk6<T>(a).Adjugate(), out); break; case S_INV: { auto r = mk6<T>(a).Inverse(); if (!r.has_value()) return false; fl(r.value(), out); } break;
    case S_ADD: fl(mk6<T>(a) + mk6<T>(b), out); break; case S_SUB: fl(mk6<T>(a) - mk6<T>(b), out); break; case S_MULN: fl(mk6<T>(a) * (T)b[0], out); break; case S_NMUL: fl((T)a[0] * mk6<T>(b), out); break;
    case S_DIVN: fl(mk6<T>(a) / (T)b[0], out); break; case S_MULPV: fl(mk6<T>(a) * mk2<T>(b), out); break; case S_MULV: fl(mk6<T>(a) * mk3<T>(b), out); break; case S_MULS: fl(mk6<T>(a) * mk6<T>(b), out); break;
    case S_MULD: fl(mk6<T>(a) * mk9<T>(b), out); break;
    case S_ADDEQ: { auto x = mk6<T>(a); x += mk6<T>(b); fl(x, out); } break; case S_SUBEQ: { auto x = mk6<T>(a); x -= mk6<T>(b); fl(x, out); } break;
    case S_MULEQ: { auto x = mk6<T>(a); x *= (T)b[0]; fl(x, out); } break; case S_DIVEQ: { auto x = mk6<T>(a); x /= (T)b[0]; fl(x, out); } break;
    case S_OFFDIAG: { auto x = mk6<T>(a); out[0] = x.yx(); out[1] = x.zx(); out[2] = x.zy(); } break;
    case D_SYM: out[0] = mk9<T>(a).IsSymmetric() ? 1 : 0; break; case D_TRACE: fl(mk9<T>(a).Trace(), out); break; case D_DET: fl(mk9<T>(a).Determinant(), out); break; case D_TRANSPOSE: fl(mk9<T>(a).Transpose(), out); break;
    case D_COF: fl(mk9<T>(a).Cofactors(), out); break; case D_ADJ: fl(mk9<T>(a).Adjugate(), out); break; case D_INV: { auto r = mk9<T>(a).Inverse(); if (!r.has_value()) return false; fl(r.value(), out); } break;
    case D_ADD: fl(mk9<T>(a) + mk9<T>(b), out); break; case D_SUB: fl(mk9<T>(a) - mk9<T>(b), out); break; case D_MULN: fl(mk9<T>(a) * (T)b[0], out); break; case D_NMUL: fl((T)a[0] * mk9<T>(b), out); break;
    case D_DIVN: fl(mk9<T>(a) / (T)b[0], out); break; case D_MULPV: fl(mk9<T>(a) * mk2<T>(b), out); break; case D_MULV: fl(mk9<T>(a) * mk3<T>(b), out); break; case D_MULS: fl(mk9<T>(a) * mk6<T>(b), out); break;
    case D_MULD: fl(mk9<T>(a) * mk9<T>(b), out); break; case D_FROM_S: fl(Dyad<T>(mk6<T>(a)), out); break;
    case D_ADDEQ: { auto x = mk9<T>(a); x += mk9<T>(b); fl(x, out); } break; case D_SUBEQ: { auto x = mk9<T>(a); x -= mk9<T>(b); fl(x, out); } break;
    case D_MULEQ: { auto x = mk9<T>(a); x *= (T)b[0]; fl(x, out); } break; case D_DIVEQ: { auto x = mk9<T>(a); x /= (T)b[0]; fl(x, out); } break;
    case D_ASSIGN_S: { Dyad<T> x((T)7, (T)-3, (T)5, (T)11, (T)-13, (T)2, (T)17, (T)-19, (T)23); x = mk6<T>(a); fl(x, out); } break;   // the target already holds a value
    default: break;
  }
  return true;
}
static bool lib(int nt, int op, const LD* a, const LD* b, LD* out) { return nt == 0 ? lib_op<float>(op, a, b, out) : nt == 1 ? lib_op<double>(op, a, b, out) : lib_op<long double>(op, a, b, out); }

// ---- reference: index notation on 3x3 arrays / 3-arrays in __float128 ----------------------------------------------
struct M3 { Q m[3][3]; };
struct V3 { Q v[3]; };
static V3 vec_of(int shape, const LD* c) { V3 r; r.v[0] = c[0]; r.v[1] = c[1]; r.v[2] = shape == 3 ? (Q)c[2] : (Q)0; return r; }
static M3 mat_of(int shape, const LD* c) {
  M3 r;
  if (shape == 9) { for (int i = 0; i < 3; i++) for (int j = 0; j < 3; j++) r.m[i][j] = c[3 * i + j]; }
  else { static const int k[3][3] = {{0, 1, 2}, {1, 3, 4}, {2, 4, 5}}; for (int i = 0; i < 3; i++) for (int j = 0; j < 3; j++) r.m[i][j] = c[k[i][j]]; }
  return r;
}
static int eps3(int i, int j, int k) { return (i - j) * (j - k) * (k - i) / 2; }   // Levi-Civita
static void put_vec(int shape, const V3& v, const V3& mg, Q* out, Q* mag) { for (int i = 0; i < shape; i++) { out[i] = v.v[i]; mag[i] = mg.v[i]; } }
static void put_mat(int shape, const M3& m, const M3& mg, Q* out, Q* mag) {
  if (shape == 9) { for (int i = 0; i < 3; i++) for (int j = 0; j < 3; j++) { out[3 * i + j] = m.m[i][j]; mag[3 * i + j] = mg.m[i][j]; } }
  else { static const int ii[6] = {0, 0, 0, 1, 1, 2}, jj[6] = {0, 1, 2, 1, 2, 2}; for (int k = 0; k < 6; k++) { out[k] = m.m[ii[k]][jj[k]]; mag[k] = mg.m[ii[k]][jj[k]]; } }
}
static Q det3(const M3& A, Q* mag) {
  Q d = 0, g = 0;
  for (int i = 0; i < 3; i++) for (int j = 0; j < 3; j++) for (int k = 0; k < 3; k++) { const int e = eps3(i, j, k); if (!e) continue; const Q t = A.m[0][i] * A.m[1][j] * A.m[2][k]; d += e * t; g += fabsq(t); }
  if (mag) *mag = g;
  return d;
}
static void cof3(const M3& A, M3& C, M3& G) {  // cofactor C_ij = (-1)^(i+j) minor_ij
  for (int i = 0; i < 3; i++) for (int j = 0; j < 3; j++) {
    const int r0 = (i + 1) % 3, r1 = (i + 2) % 3, c0 = (j + 1) % 3, c1 = (j + 2) % 3;   // cyclic indices absorb the sign
    C.m[i][j] = A.m[r0][c0] * A.m[r1][c1] - A.m[r0][c1] * A.m[r1][c0];
    G.m[i][j] = fabsq(A.m[r0][c0] * A.m[r1][c1]) + fabsq(A.m[r0][c1] * A.m[r1][c0]);
  }
}
// returns false if the op has no value-level reference here (optional / boolean handled by the caller)
static void ref_op(int op, const LD* a, const LD* b, Q* out, Q* mag) {
  const Op& o = kOps[op];
  const int rs = res_shape(op);
  auto isvec = [](int s) { return s == 2 || s == 3; }; auto ismat = [](int s) { return s == 6 || s == 9; };
  const std::string nm = o.name;
  const bool eq_form = nm.find("=") != std::string::npos && nm.find("= ") != std::string::npos && (nm.find("+=") != std::string::npos || nm.find("-=") != std::string::npos || nm.find("*=") != std::string::npos || nm.find("/=") != std::string::npos);
  (void)eq_form;
  // element-wise families
  auto elementwise = [&](char c) {
    const int n = rs;
    for (int i = 0; i < n; i++) {
      const Q x = o.na == 1 ? (Q)a[0] : (Q)a[i], y = o.nb == 1 ? (Q)b[0] : (Q)b[i];
      out[i] = c == '+' ? x + y : c == '-' ? x - y : c == '*' ? x * y : x / y; mag[i] = c == '+' || c == '-' ? fabsq(x) + fabsq(y) : fabsq(out[i]);
    }
  };
  switch (op) {
    case V_ADD: case P_ADD: case S_ADD: case D_ADD: case V_ADDEQ: case P_ADDEQ: case S_ADDEQ: case D_ADDEQ: elementwise('+'); return;
    case V_SUB: case P_SUB: case S_SUB: case D_SUB: case V_SUBEQ: case P_SUBEQ: case S_SUBEQ: case D_SUBEQ: elementwise('-'); return;
    case V_MULN: case V_NMUL: case P_MULN: case P_NMUL: case S_MULN: case S_NMUL: case D_MULN: case D_NMUL: case V_MULEQ: case P_MULEQ: case S_MULEQ: case D_MULEQ: elementwise('*'); return;
    case V_DIVN: case P_DIVN: case S_DIVN: case D_DIVN: case V_DIVEQ: case P_DIVEQ: case S_DIVEQ: case D_DIVEQ: elementwise('/'); return;
    default: break;
  }
  if (isvec(o.na) && (o.nb == 0 || isvec(o.nb))) {
    const V3 x = vec_of(o.na, a), y = o.nb ? vec_of(o.nb, b) : V3{{0, 0, 0}};
    switch (op) {
      case V_DOT: case P_DOT: { out[0] = 0; mag[0] = 0; for (int i = 0; i < 3; i++) { out[0] += x.v[i] * y.v[i]; mag[0] += fabsq(x.v[i] * y.v[i]); } return; }
      case V_MAGSQ: case P_MAGSQ: { out[0] = 0; for (int i = 0; i < 3; i++) out[0] += x.v[i] * x.v[i]; mag[0] = out[0]; return; }
      case V_MAG: case P_MAG: { Q s = 0; for (int i = 0; i < 3; i++) s += x.v[i] * x.v[i]; out[0] = sqrtq(s); mag[0] = out[0]; return; }
      case V_CROSS: case P_CROSS: { V3 r{{0, 0, 0}}, g{{0, 0, 0}}; for (int i = 0; i < 3; i++) for (int j = 0; j < 3; j++) for (int k = 0; k < 3; k++) { const int e = eps3(i, j, k); if (e) { r.v[i] += e * x.v[j] * y.v[k]; g.v[i] += fabsq(x.v[j] * y.v[k]); } } put_vec(3, r, g, out, mag); return; }
      case V_DYADIC: case P_DYADIC: { M3 r, g; for (int i = 0; i < 3; i++) for (int j = 0; j < 3; j++) { r.m[i][j] = x.v[i] * y.v[j]; g.m[i][j] = fabsq(r.m[i][j]); } put_mat(9, r, g, out, mag); return; }
      case V_FROM_PV: { V3 g = x; for (auto& q : g.v) q = fabsq(q); put_vec(3, x, g, out, mag); return; }
      case P_FROM_V: { V3 g = x; for (auto& q : g.v) q = fabsq(q); put_vec(2, x, g, out, mag); return; }
      default: break;
    }
  }
  if (ismat(o.na)) {
    const M3 A = mat_of(o.na, a);
    M3 R, G; for (int i = 0; i < 3; i++) for (int j = 0; j < 3; j++) { R.m[i][j] = 0; G.m[i][j] = 0; }
    switch (op) {
      case S_TRACE: case D_TRACE: { out[0] = A.m[0][0] + A.m[1][1] + A.m[2][2]; mag[0] = fabsq(A.m[0][0]) + fabsq(A.m[1][1]) + fabsq(A.m[2][2]); return; }
      case S_DET: case D_DET: { out[0] = det3(A, &mag[0]); return; }
      case S_TRANSPOSE: case D_TRANSPOSE: { for (int i = 0; i < 3; i++) for (int j = 0; j < 3; j++) { R.m[i][j] = A.m[j][i]; G.m[i][j] = fabsq(R.m[i][j]); } put_mat(rs, R, G, out, mag); return; }
      case S_COF: case D_COF: { cof3(A, R, G); put_mat(rs, R, G, out, mag); return; }
      case S_ADJ: case D_ADJ: { M3 C, H; cof3(A, C, H); for (int i = 0; i < 3; i++) for (int j = 0; j < 3; j++) { R.m[i][j] = C.m[j][i]; G.m[i][j] = H.m[j][i]; } put_mat(rs, R, G, out, mag); return; }
      case S_INV: case D_INV: { M3 C, H; cof3(A, C, H); Q dm; const Q d = det3(A, &dm); for (int i = 0; i < 3; i++) for (int j = 0; j < 3; j++) { R.m[i][j] = C.m[j][i] / d; G.m[i][j] = H.m[j][i] / fabsq(d); } put_mat(rs, R, G, out, mag); return; }
      case S_MULPV: case S_MULV: case D_MULPV: case D_MULV: { const V3 y = vec_of(o.nb, b); V3 r{{0, 0, 0}}, g{{0, 0, 0}}; for (int i = 0; i < 3; i++) for (int k = 0; k < 3; k++) { r.v[i] += A.m[i][k] * y.v[k]; g.v[i] += fabsq(A.m[i][k] * y.v[k]); } put_vec(3, r, g, out, mag); return; }
      case S_MULS: case S_MULD: case D_MULS: case D_MULD: { const M3 B = mat_of(o.nb, b); for (int i = 0; i < 3; i++) for (int j = 0; j < 3; j++) for (int k = 0; k < 3; k++) { R.m[i][j] += A.m[i][k] * B.m[k][j]; G.m[i][j] += fabsq(A.m[i][k] * B.m[k][j]); } put_mat(9, R, G, out, mag); return; }
      case D_FROM_S: case D_ASSIGN_S: { for (int i = 0; i < 3; i++) for (int j = 0; j < 3; j++) { R.m[i][j] = A.m[i][j]; G.m[i][j] = fabsq(A.m[i][j]); } put_mat(9, R, G, out, mag); return; }
      case S_OFFDIAG: { out[0] = A.m[1][0]; out[1] = A.m[2][0]; out[2] = A.m[2][1]; for (int i = 0; i < 3; i++) mag[i] = fabsq(out[i]); return; }
      case D_SYM: { out[0] = (A.m[0][1] == A.m[1][0] && A.m[0][2] == A.m[2][0] && A.m[1][2] == A.m[2][1]) ? 1 : 0; mag[0] = 1; return; }
      default: break;
    }
  }
}
static std::string cs(const LD* v, int n) { std::string s = "("; for (int i = 0; i < n; i++) { if (i) s += ", "; s += decld(v[i]); } return s + ")"; }

// one evaluation: exact == true demands bit equality (integer-valued inputs), otherwise `tol` ulp of the sum of |terms|
static std::string eval_one(int nt, int op, const LD* a, const LD* b, bool exact, double tol) {
  const Op& o = kOps[op];
  LD out[9]; Q ref[9], mag[9];
  const bool present = lib(nt, op, a, b, out);
  const int rs = res_shape(op);
  if (o.nr == 0) {
    // Inverse(): absent exactly when the determinant is zero
    Q dm; const Q d = det3(mat_of(o.na, a), &dm);
    if (exact) { if (present != (d != 0)) return fmt("%s of %s in %s is %s but the exact determinant is %s", o.name, cs(a, o.na).c_str(), ntinfo(nt).name, present ? "present" : "absent", qstr(d).c_str()); }
    if (!present || d == 0) return "";
    if (exact) return "";   // value of the inverse on integer inputs involves division: checked in the real tier
  }
  ref_op(op, a, b, ref, mag);
  for (int i = 0; i < rs; i++) {
    if (exact) {
      if ((Q)out[i] != ref[i]) return fmt("%s in %s on %s%s%s: component %d is %s, the textbook formula gives %s exactly", o.name, ntinfo(nt).name, cs(a, o.na).c_str(), o.nb ? ", " : "", o.nb ? cs(b, o.nb).c_str() : "", i, decld(out[i]).c_str(), qstr(ref[i]).c_str());
    } else {
      if (mag[i] == 0) { if (out[i] != 0) return fmt("%s in %s: component %d is %s, expected 0", o.name, ntinfo(nt).name, i, decld(out[i]).c_str()); continue; }
      const double e = err_ulps(nt, out[i], ref[i], mag[i]);
      if (!(e <= tol)) return fmt("%s in %s on %s%s%s: component %d is %s, the textbook formula gives %s (%.3g ulp of the sum of |terms|, allowed %.0f)", o.name, ntinfo(nt).name, cs(a, o.na).c_str(), o.nb ? ", " : "", o.nb ? cs(b, o.nb).c_str() : "", i,
                              decld(out[i]).c_str(), qstr(ref[i]).c_str(), e, tol);
    }
  }
  return "";
}
static double tol_of(int op) {
  switch (op) { case S_DET: case D_DET: return 6; case S_INV: case D_INV: return 0; case V_MAG: case P_MAG: return 3; default: return 4; }
}

// ================================================================================================ exhaustive grids
static Verdict c09_grid(const Case& c) {
  const int nt = (int)c.i[0], op = (int)c.i[1];
  const Op& o = kOps[op];
  const int ntot = o.na + o.nb;
  static const LD vecvals[] = {-2, -1, 0, 1, 2}, tenvals[] = {-1, 0, 1, 2};
  const bool tensor = o.na >= 6 || o.nb >= 6;
  const LD* vals = tensor ? tenvals : vecvals; const int nv = tensor ? 4 : 5;
  long total = 1; for (int k = 0; k < ntot; k++) { total *= nv; if (total > 2000000) { Verdict V; V.cls = "grid-too-large-left-to-the-random-tier"; return V; } }
  LD buf[18]; long evals = 0, nontriv = 0;
  for (long g = 0; g < total; g++) {
    long r = g; bool distinct_nonzero = true;
    for (int k = 0; k < ntot; k++) { buf[k] = vals[r % nv]; r /= nv; }
    if ((op == V_DIVN || op == P_DIVN || op == S_DIVN || op == D_DIVN || op == V_DIVEQ || op == P_DIVEQ || op == S_DIVEQ || op == D_DIVEQ) && buf[o.na] == 0) continue;
    for (int k = 0; k < ntot; k++) if (buf[k] == 0) distinct_nonzero = false;
    const bool exact_div = !(op == V_DIVN || op == P_DIVN || op == S_DIVN || op == D_DIVN || op == V_DIVEQ || op == P_DIVEQ || op == S_DIVEQ || op == D_DIVEQ || op == V_MAG || op == P_MAG);
    const std::string m = eval_one(nt, op, buf, buf + o.na, exact_div, 1);
    evals++; if (distinct_nonzero) nontriv++;
    if (!m.empty()) return Verdict::fail(m);
  }
  Verdict V; V.sub_evals = evals; V.sub_nontrivial = nontriv; V.nontrivial = nontriv > 0; V.cls = std::string(ntinfo(nt).name) + ";" + (tensor ? "tensor-grid" : "vector-grid");
  V.show = fmt("%s in %s: all %ld points of the integer grid", o.name, ntinfo(nt).name, evals);
  return V;
}
// ================================================================================================ random integer / real components
static Verdict c09_random(const Case& c) {
  const int nt = (int)c.i[0], op = (int)c.i[1]; const bool integer = c.i[2] != 0;
  const Op& o = kOps[op];
  const LD* a = c.r.data(); const LD* b = c.r.data() + o.na;
  const bool division = (op == V_DIVN || op == P_DIVN || op == S_DIVN || op == D_DIVN || op == V_DIVEQ || op == P_DIVEQ || op == S_DIVEQ || op == D_DIVEQ);
  if (division && b[0] == 0) return Verdict::skip("division-by-zero");
  const bool exact = integer && !division && op != V_MAG && op != P_MAG;
  if ((op == S_INV || op == D_INV) && !integer) {
    // real tensors: (i) the inverse is absent exactly when the determinant (as the library itself computes it) is zero;
    // (ii) for the diagonally dominant ones (mode 2, any power-of-two scale) A * A^-1 = I
    const int mode = (int)c.i[3];
    LD inv[9], det[1];
    const bool present = lib(nt, op, a, b, inv);
    lib(nt, op == S_INV ? S_DET : D_DET, a, b, det);
    if (present != (det[0] != 0)) return Verdict::fail(fmt("%s of %s in %s is %s although Determinant() = %s", o.name, cs(a, o.na).c_str(), ntinfo(nt).name, present ? "present" : "absent", decld(det[0]).c_str()));
    // the same tensor through the other type: a symmetric tensor and its embedding in Dyad agree on presence whenever their determinants agree on being zero
    if (mode != 2) { Verdict V; V.cls = std::string(ntinfo(nt).name) + ";inverse-presence;" + (present ? "present" : "absent"); V.nontrivial = true; return V; }
    if (!present) return Verdict::fail(fmt("%s of the diagonally dominant %s in %s is absent", o.name, cs(a, o.na).c_str(), ntinfo(nt).name));
    const M3 A = mat_of(o.na, a), B = mat_of(o.na, inv);
    Q na = 0, nb = 0; for (int i = 0; i < 3; i++) { Q ra = 0, rb = 0; for (int j = 0; j < 3; j++) { ra += fabsq(A.m[i][j]); rb += fabsq(B.m[i][j]); } if (ra > na) na = ra; if (rb > nb) nb = rb; }
    const double cond = (double)(na * nb);
    for (int i = 0; i < 3; i++) for (int j = 0; j < 3; j++) {
      Q s = 0; for (int k = 0; k < 3; k++) s += A.m[i][k] * B.m[k][j];
      const double e = (double)(fabsq(s - (i == j ? 1 : 0)) / (Q)eps_of(nt));
      if (!(e <= 16 * cond)) return Verdict::fail(fmt("%s in %s: (A * A^-1)[%d][%d] = %s for A = %s (%.3g eps, allowed 16 cond(A) = %.3g)", o.name, ntinfo(nt).name, i, j, qstr(s).c_str(), cs(a, o.na).c_str(), e, 16 * cond));
    }
    Verdict V; V.cls = std::string(ntinfo(nt).name) + ";inverse;cond<=" + (cond <= 10 ? "10" : cond <= 100 ? "100" : "inf"); V.nontrivial = true; return V;
  }
  const std::string m = eval_one(nt, op, a, b, exact, tol_of(op));
  if (!m.empty()) return Verdict::fail(m);
  Verdict V; V.cls = std::string(ntinfo(nt).name) + (integer ? ";integer" : ";real");
  bool nz = true; for (int k = 0; k < o.na + o.nb; k++) if (c.r[(size_t)k] == 0) nz = false;
  bool distinct = true; for (int i = 0; i < o.na + o.nb; i++) for (int j = i + 1; j < o.na + o.nb; j++) if (c.r[(size_t)i] == c.r[(size_t)j]) distinct = false;
  V.nontrivial = nz && distinct;
  V.show = fmt("%s in %s on %s%s%s", o.name, ntinfo(nt).name, cs(a, o.na).c_str(), o.nb ? ", " : "", o.nb ? cs(b, o.nb).c_str() : "");
  return V;
}
static rc::Gen<Case> gen_c09_random(int inst) {
  const int op = inst % N_OPS, nt = inst / N_OPS; const Op& o = kOps[op]; const int n = o.na + o.nb;
  auto ints = rc::gen::container<std::vector<LD>>((size_t)n, rc::gen::map(irange(-64, 64), [](int x) { return (LD)x; }));
  const int w = nt == 0 ? 12 : 40;
  auto reals = gen_reals(n, nt, -w, w, kNeg);
  if (op == S_INV || op == D_INV) {
    // integers (possibly singular: rows repeated on purpose) or diagonally dominant reals
    auto singular = rc::gen::map(rc::gen::tuple(ints, irange(0, 2), irange(0, 2)), [=](const std::tuple<std::vector<LD>, int, int>& t) {
      std::vector<LD> v = std::get<0>(t);
      if (o.na == 9) { const int r0 = std::get<1>(t), r1 = std::get<2>(t); if (r0 != r1) for (int j = 0; j < 3; j++) v[(size_t)(3 * r0 + j)] = 2 * v[(size_t)(3 * r1 + j)]; }
      else { const int k = std::get<1>(t); static const int row[3][3] = {{0, 1, 2}, {1, 3, 4}, {2, 4, 5}}; for (int j = 0; j < 3; j++) v[(size_t)row[k][j]] = 0; }
      return v; });
    // power-of-two scale: the determinant (scale^3) stays inside the normal range
    const int kmaxs = nt == 0 ? 30 : nt == 1 ? 300 : 3000;
    auto dominant = rc::gen::map(rc::gen::tuple(gen_reals(n, nt, -2, 2, kNeg), irange(-kmaxs, kmaxs)), [=](const std::tuple<std::vector<LD>, int>& t) {
      std::vector<LD> v = std::get<0>(t);
      static const int d9[3] = {0, 4, 8}, d6[3] = {0, 3, 5};
      LD s = 0; for (LD x : v) s += std::fabs(x);
      for (int k = 0; k < 3; k++) { size_t i = (size_t)(o.na == 9 ? d9[k] : d6[k]); v[i] = round_to(nt, (v[i] < 0 ? -1 : 1) * (std::fabs(v[i]) + s)); }
      for (auto& x : v) x = std::ldexp(x, std::get<1>(t));
      return v; });
    auto anyreal = rc::gen::map(rc::gen::tuple(gen_reals(n, nt, -3, 3, kNeg | kZero), irange(-kmaxs, kmaxs), irange(0, 3)), [=](const std::tuple<std::vector<LD>, int, int>& t) {
      std::vector<LD> v = std::get<0>(t);
      if (std::get<2>(t) == 0 && o.na == 9) for (int j = 0; j < 3; j++) v[(size_t)(3 + j)] = round_to(nt, v[(size_t)j] * 1.5L);   // a row that is a multiple of another: determinant zero up to rounding
      for (auto& x : v) x = std::ldexp(x, std::get<1>(t));
      return v; });
    return rc::gen::mapcat(irange(0, 3), [=](int mode) {
      return rc::gen::map(mode == 0 ? ints : mode == 1 ? singular : mode == 2 ? dominant : anyreal, [=](const std::vector<LD>& v) { Case c; c.i = {nt, op, mode <= 1, mode}; c.r = v; return c; }); });
  }
  return rc::gen::mapcat(irange(0, 1), [=](int integer) { return rc::gen::map(integer ? ints : reals, [=](const std::vector<LD>& v) { Case c; c.i = {nt, op, integer}; c.r = v; return c; }); });
}

// ================================================================================================ embeddings
// symmetric and planar types give the same results as their embeddings in Dyad / Vector, operation by operation
struct Emb { int op_small, op_big; };
static const Emb kEmb[] = {{P_DOT, V_DOT}, {P_CROSS, V_CROSS}, {P_DYADIC, V_DYADIC}, {P_MAGSQ, V_MAGSQ}, {P_MAG, V_MAG}, {P_ADD, V_ADD}, {P_SUB, V_SUB}, {P_MULN, V_MULN}, {P_NMUL, V_NMUL}, {P_DIVN, V_DIVN},
                           {S_TRACE, D_TRACE}, {S_DET, D_DET}, {S_TRANSPOSE, D_TRANSPOSE}, {S_COF, D_COF}, {S_ADJ, D_ADJ}, {S_INV, D_INV}, {S_ADD, D_ADD}, {S_SUB, D_SUB}, {S_MULN, D_MULN}, {S_NMUL, D_NMUL}, {S_DIVN, D_DIVN},
                           {S_MULPV, D_MULPV}, {S_MULV, D_MULV}, {S_MULS, D_MULD}, {S_MULD, D_MULD}, {D_MULS, D_MULD}, {S_MULPV, S_MULV}, {D_MULPV, D_MULV}};
static void embed(int from, int to, const LD* in, LD* out) {
  if (from == to) { for (int i = 0; i < from; i++) out[i] = in[i]; return; }
  if (from == 2 && to == 3) { out[0] = in[0]; out[1] = in[1]; out[2] = 0; return; }
  if (from == 6 && to == 9) { static const int k[9] = {0, 1, 2, 1, 3, 4, 2, 4, 5}; for (int i = 0; i < 9; i++) out[i] = in[k[i]]; return; }
  if (from == 3 && to == 2) { out[0] = in[0]; out[1] = in[1]; return; }
  if (from == 9 && to == 6) { static const int k[6] = {0, 1, 2, 4, 5, 8}; for (int i = 0; i < 6; i++) out[i] = in[k[i]]; return; }
}
static Verdict c09_embed(const Case& c) {
  const int nt = (int)c.i[0]; const Emb& e = kEmb[(size_t)c.i[1]]; const bool integer = c.i[2] == 1;
  const Op &s = kOps[e.op_small], &b = kOps[e.op_big];
  LD a1[9], b1[9], a2[9], b2[9], r1[9], r2[9], r1e[9];
  for (int i = 0; i < s.na; i++) a1[i] = c.r[(size_t)i]; for (int i = 0; i < s.nb; i++) b1[i] = c.r[(size_t)(s.na + i)];
  embed(s.na, b.na, a1, a2); if (s.nb) embed(s.nb, b.nb, b1, b2);
  const bool division = std::string(s.name).find("/") != std::string::npos;
  if (division && b1[0] == 0) return Verdict::skip("division-by-zero");
  const bool p1 = lib(nt, e.op_small, a1, b1, r1), p2 = lib(nt, e.op_big, a2, b2, r2);
  const bool exactly_singular = c.i[2] == 2;
  if (p1 != p2 && exactly_singular)
    return Verdict::fail(fmt("%s is %s but %s of the embedding is %s for the exactly singular tensor A = %s (two equal rows, or one row twice another; %s): the symmetric type and its embedding in Dyad do not give the same result",
                             s.name, p1 ? "present" : "absent", b.name, p2 ? "present" : "absent", cs(a1, s.na).c_str(), ntinfo(nt).name));
  if (p1 != p2) { if (integer) return Verdict::fail(fmt("%s is %s but %s of the embedding is %s (A = %s, %s)", s.name, p1 ? "present" : "absent", b.name, p2 ? "present" : "absent", cs(a1, s.na).c_str(), ntinfo(nt).name)); return Verdict::skip("determinant-rounds-differently"); }
  if (!p1) { Verdict V; V.cls = exactly_singular ? "both-absent;real-exactly-singular" : "both-absent"; V.nontrivial = exactly_singular; return V; }
  const int rs1 = res_shape(e.op_small), rs2 = res_shape(e.op_big);
  embed(rs1, rs2, r1, r1e);
  if (rs1 > rs2) { for (int i = 0; i < rs2; i++) r1e[i] = r1[i]; }
  Q ref[9], mag[9]; ref_op(e.op_big, a2, b2, ref, mag);
  if (exactly_singular) { Verdict V; V.cls = "both-present;real-exactly-singular"; return V; }   // two inverses of a singular tensor: nothing to compare
  const bool exact = integer && !division && e.op_small != S_INV && e.op_small != P_MAG;
  for (int i = 0; i < rs2; i++) {
    if (exact ? !same_bits(nt, r1e[i], r2[i]) && !(r1e[i] == 0 && r2[i] == 0) : false)
      return Verdict::fail(fmt("%s = %s but %s of the embedding = %s (%s; operands %s%s%s)", s.name, cs(r1, rs1).c_str(), b.name, cs(r2, rs2).c_str(), ntinfo(nt).name, cs(a1, s.na).c_str(), s.nb ? ", " : "", s.nb ? cs(b1, s.nb).c_str() : ""));
    if (!exact) {
      const Q sc = (e.op_small == S_INV) ? fabsq((Q)r2[i]) + fabsq(mag[i]) : mag[i];
      if (sc == 0) { if (r1e[i] != 0 && r2[i] != 0) return Verdict::fail(fmt("%s vs embedding %s: component %d should vanish", s.name, b.name, i)); continue; }
      const double d = (double)(fabsq((Q)r1e[i] - (Q)r2[i]) / ulp_at_q(nt, sc));
      if (!(d <= (e.op_small == S_INV ? 64.0 : 8.0))) return Verdict::fail(fmt("%s = %s but %s of the embedding = %s: component %d differs by %.3g ulp (%s)", s.name, cs(r1, rs1).c_str(), b.name, cs(r2, rs2).c_str(), i, d, ntinfo(nt).name));
    }
  }
  Verdict V; V.cls = std::string(ntinfo(nt).name) + (exactly_singular ? ";real-exactly-singular" : integer ? ";integer" : ";real"); V.nontrivial = true; for (int k = 0; k < s.na + s.nb; k++) if (c.r[(size_t)k] == 0) V.nontrivial = false;
  return V;
}

// ================================================================================================ C14 / C16 for the math types
template <class T, class X> static int cmp_mask(const X& x, const X& y) { return (x == y ? 1 : 0) | (x != y ? 2 : 0) | (x < y ? 4 : 0) | (x > y ? 8 : 0) | (x <= y ? 16 : 0) | (x >= y ? 32 : 0); }
template <class T> static void c14_lib(int shape, const LD* a, const LD* b, int* mask, size_t* ha, size_t* hb, int* cont) {
  auto go = [&](auto x, auto y) {
    using X = decltype(x);
    *mask = cmp_mask<T, X>(x, y); *ha = std::hash<X>()(x); *hb = std::hash<X>()(y);
    std::set<X> s{x, y}; std::unordered_set<X> u{x, y};
    *cont = (int)s.size() * 10 + (int)u.size() + ((s.count(x) && s.count(y) && u.count(x) && u.count(y)) ? 100 : 0);
  };
  if (shape == 2) go(mk2<T>(a), mk2<T>(b)); else if (shape == 3) go(mk3<T>(a), mk3<T>(b)); else if (shape == 6) go(mk6<T>(a), mk6<T>(b)); else go(mk9<T>(a), mk9<T>(b));
}
static Verdict c14_math(const Case& c) {
  const int nt = (int)c.i[0], shape = (int)c.i[1];
  LD a[9], b[9]; for (int i = 0; i < shape; i++) { a[i] = round_to(nt, c.r[(size_t)i]); b[i] = round_to(nt, c.r[(size_t)(shape + i)]); }
  int mask, cont; size_t ha, hb;
  if (nt == 0) c14_lib<float>(shape, a, b, &mask, &ha, &hb, &cont); else if (nt == 1) c14_lib<double>(shape, a, b, &mask, &ha, &hb, &cont); else c14_lib<long double>(shape, a, b, &mask, &ha, &hb, &cont);
  int cmp = 0; for (int i = 0; i < shape && !cmp; i++) cmp = a[i] < b[i] ? -1 : a[i] > b[i] ? 1 : 0;
  const int want = (cmp == 0 ? 1 : 0) | (cmp != 0 ? 2 : 0) | (cmp < 0 ? 4 : 0) | (cmp > 0 ? 8 : 0) | (cmp <= 0 ? 16 : 0) | (cmp >= 0 ? 32 : 0);
  static const char* tn[] = {"", "", "PlanarVector", "Vector", "", "", "SymmetricDyad", "", "", "Dyad"};
  if (mask != want) return Verdict::fail(fmt("%s<%s>: comparison mask (==,!=,<,>,<=,>=) of %s and %s is %d, lexicographic comparison of the components gives %d", tn[shape], ntinfo(nt).name, cs(a, shape).c_str(), cs(b, shape).c_str(), mask, want));
  if (cmp == 0 && ha != hb) return Verdict::fail(fmt("%s<%s>: %s == %s but the hashes differ", tn[shape], ntinfo(nt).name, cs(a, shape).c_str(), cs(b, shape).c_str()));
  const int distinct = cmp == 0 ? 1 : 2;
  if (cont != 100 + distinct * 11) return Verdict::fail(fmt("%s<%s>: {%s, %s} in std::set / std::unordered_set: sizes and lookups code %d, expected %d", tn[shape], ntinfo(nt).name, cs(a, shape).c_str(), cs(b, shape).c_str(), cont, 100 + distinct * 11));
  int tie = 0; while (tie < shape && a[tie] == b[tie]) tie++;
  Verdict V; V.cls = std::string(ntinfo(nt).name) + ";" + tn[shape] + ";tie" + std::to_string(tie); V.nontrivial = tie >= 1; return V;
}
template <class T, class T2> static void c16_lib(int shape, int via, const LD* a, LD* out) {
  auto go = [&](auto src, auto dst0) { using D = decltype(dst0); if (via == 0) { D d(src); fl(d, out); } else { D d = dst0; d = src; fl(d, out); } };
  LD z[9] = {7, -3, 5, 11, -13, 2, 17, -19, 23};   // the assignment target already holds a value
  if (shape == 2) go(mk2<T>(a), mk2<T2>(z)); else if (shape == 3) go(mk3<T>(a), mk3<T2>(z)); else if (shape == 6) go(mk6<T>(a), mk6<T2>(z)); else go(mk9<T>(a), mk9<T2>(z));
}
static Verdict c16_math(const Case& c) {
  const int nt = (int)c.i[0], to = (int)c.i[1], shape = (int)c.i[2], via = (int)c.i[3];
  LD a[9], out[9]; for (int i = 0; i < shape; i++) a[i] = round_to(nt, c.r[(size_t)i]);
#define VF_C16(A, B, TA, TB) if (nt == A && to == B) c16_lib<TA, TB>(shape, via, a, out);
  VF_C16(0, 1, float, double) VF_C16(0, 2, float, long double) VF_C16(1, 0, double, float) VF_C16(1, 2, double, long double) VF_C16(2, 0, long double, float) VF_C16(2, 1, long double, double)
#undef VF_C16
  static const char* tn[] = {"", "", "PlanarVector", "Vector", "", "", "SymmetricDyad", "", "", "Dyad"};
  bool inexact = false;
  for (int i = 0; i < shape; i++) { const LD want = round_to(to, a[i]); if (want != a[i]) inexact = true; if (!same_bits(to, out[i], want)) return Verdict::fail(fmt("%s<%s> -> <%s> (%s): component %d is %s, static_cast gives %s (source %s)", tn[shape], ntinfo(nt).name, ntinfo(to).name, via ? "assignment" : "constructor", i, hexld(out[i]).c_str(), hexld(want).c_str(), cs(a, shape).c_str())); }
  Verdict V; V.cls = std::string(ntinfo(nt).name) + "->" + ntinfo(to).name + ";" + tn[shape]; V.nontrivial = inexact || ntinfo(to).mant > ntinfo(nt).mant; return V;
}

// ================================================================================================ C15 for the math types
template <class T> static void print_lib(int shape, const LD* a, std::string out[5], std::vector<std::string>& num) {
  auto go = [&](const auto& x) { out[0] = x.Print(); out[1] = x.JSON(); out[2] = x.XML(); out[3] = x.YAML(); std::ostringstream s; s << x; out[4] = s.str(); };
  if (shape == 2) go(mk2<T>(a)); else if (shape == 3) go(mk3<T>(a)); else if (shape == 6) go(mk6<T>(a)); else go(mk9<T>(a));
  for (int i = 0; i < shape; i++) num.push_back(PhQ::Print<T>((T)a[i]));
}
static Verdict c15_math(const Case& c) {
  const int nt = (int)c.i[0], n = (int)c.i[1];
  LD a[9]; for (int i = 0; i < n; i++) a[i] = round_to(nt, c.r[(size_t)i]);
  std::string got[5]; std::vector<std::string> num;
  if (nt == 0) print_lib<float>(n, a, got, num); else if (nt == 1) print_lib<double>(n, a, got, num); else print_lib<long double>(n, a, got, num);
  static const char* c2[] = {"x", "y"}; static const char* c3[] = {"x", "y", "z"}; static const char* c6[] = {"xx", "xy", "xz", "yy", "yz", "zz"}; static const char* c9[] = {"xx", "xy", "xz", "yx", "yy", "yz", "zx", "zy", "zz"};
  const char* const* cn = n == 2 ? c2 : n == 3 ? c3 : n == 6 ? c6 : c9;
  std::string want[5];
  want[0] = "("; for (int i = 0; i < n; i++) { if (i) want[0] += ((n == 6 && (i == 3 || i == 5)) || (n == 9 && (i == 3 || i == 6))) ? "; " : ", "; want[0] += num[(size_t)i]; } want[0] += ")"; want[4] = want[0];
  want[1] = "{"; for (int i = 0; i < n; i++) { if (i) want[1] += ","; want[1] += std::string("\"") + cn[i] + "\":" + num[(size_t)i]; } want[1] += "}";
  for (int i = 0; i < n; i++) want[2] += std::string("<") + cn[i] + ">" + num[(size_t)i] + "</" + cn[i] + ">";
  want[3] = "{"; for (int i = 0; i < n; i++) { if (i) want[3] += ","; want[3] += std::string(cn[i]) + ":" + num[(size_t)i]; } want[3] += "}";
  static const char* fn[] = {"Print", "JSON", "XML", "YAML", "operator<<"}; static const char* tn[] = {"", "", "PlanarVector", "Vector", "", "", "SymmetricDyad", "", "", "Dyad"};
  for (int f = 0; f < 5; f++) if (got[f] != want[f]) return Verdict::fail(fmt("%s<%s>::%s = \"%s\", the stated layout is \"%s\"", tn[n], ntinfo(nt).name, fn[f], got[f].c_str(), want[f].c_str()));
  Verdict V; V.cls = std::string(ntinfo(nt).name) + ";" + tn[n]; V.nontrivial = true; for (int i = 0; i < n; i++) for (int j = i + 1; j < n; j++) if (a[i] == a[j]) V.nontrivial = false;
  return V;
}

// ================================================================================================ in-place scaling by a number that refers into the object
// x *= x.Mutable_c() / x /= x.Mutable_c(): the scalar is passed as an lvalue that aliases a component of the object being scaled; the result must be
// the same as scaling by a copy of that number (and as the pure operator)
template <class T> static std::string alias_lib(int shape, int k, bool divide, const LD* a) {
  LD got[9], want[9];
  auto finish = [&](const char* what, int n) -> std::string {
    for (int i = 0; i < n; i++) if (std::memcmp(&got[i], &want[i], 10) != 0 && !(std::isnan(got[i]) && std::isnan(want[i])))
      return fmt("%s by a reference to its own component %d: slot %d is %s, scaling by a copy of that number gives %s", what, k, i, hexld(got[i]).c_str(), hexld(want[i]).c_str());
    return ""; };
  if (shape == 2) {
    PlanarVector<T> x = mk2<T>(a), y = mk2<T>(a); const T s = k == 0 ? y.x() : y.y();
    T& r = k == 0 ? x.Mutable_x() : x.Mutable_y();
    if (divide) { x /= r; y /= s; } else { x *= r; y *= s; }
    fl(x, got); fl(y, want); return finish(divide ? "PlanarVector /=" : "PlanarVector *=", 2);
  } else if (shape == 3) {
    Vector<T> x = mk3<T>(a), y = mk3<T>(a); const T s = y.x_y_z()[(size_t)k];
    T& r = x.Mutable_x_y_z()[(size_t)k];
    if (divide) { x /= r; y /= s; } else { x *= r; y *= s; }
    fl(x, got); fl(y, want); return finish(divide ? "Vector /=" : "Vector *=", 3);
  } else if (shape == 6) {
    SymmetricDyad<T> x = mk6<T>(a), y = mk6<T>(a); const T s = y.xx_xy_xz_yy_yz_zz()[(size_t)k];
    T& r = x.Mutable_xx_xy_xz_yy_yz_zz()[(size_t)k];
    if (divide) { x /= r; y /= s; } else { x *= r; y *= s; }
    fl(x, got); fl(y, want); return finish(divide ? "SymmetricDyad /=" : "SymmetricDyad *=", 6);
  }
  Dyad<T> x = mk9<T>(a), y = mk9<T>(a); const T s = y.xx_xy_xz_yx_yy_yz_zx_zy_zz()[(size_t)k];
  T& r = x.Mutable_xx_xy_xz_yx_yy_yz_zx_zy_zz()[(size_t)k];
  if (divide) { x /= r; y /= s; } else { x *= r; y *= s; }
  fl(x, got); fl(y, want); return finish(divide ? "Dyad /=" : "Dyad *=", 9);
}
static Verdict c09_alias(const Case& c) {
  const int nt = (int)c.i[0], n = (int)c.i[1], k = (int)(c.i[2] % n); const bool divide = c.i[3] != 0;
  LD a[9]; for (int i = 0; i < n; i++) a[i] = round_to(nt, c.r[(size_t)i]);
  if (divide && a[k] == 0) return Verdict::skip("division-by-zero");
  const std::string m = nt == 0 ? alias_lib<float>(n, k, divide, a) : nt == 1 ? alias_lib<double>(n, k, divide, a) : alias_lib<long double>(n, k, divide, a);
  if (!m.empty()) return Verdict::fail(m + fmt(" [%s, components %s]", ntinfo(nt).name, cs(a, n).c_str()));
  Verdict V; V.cls = std::string(ntinfo(nt).name) + (divide ? ";/=" : ";*=") + ";component" + std::to_string(k); V.nontrivial = a[k] != 1 && a[k] != 0; return V;
}

// ================================================================================================ an object combined with itself
// a op a through ONE object (both operands are references to the same object) must equal a op copy_of_a: a fast path keyed on &left == &right, or an
// in-place operation that reads what it has already overwritten, shows only here
template <class T, class X> static std::string self_ops(const char* tname, const X& proto, int n) {
  std::string m;
  auto same = [&](const char* what, const auto& r1, const auto& r2) {
    LD g[9] = {0}, w[9] = {0}; int k;
    if constexpr (std::is_arithmetic_v<std::decay_t<decltype(r1)>>) { g[0] = r1; w[0] = r2; k = 1; } else { fl(r1, g); fl(r2, w); k = (int)(sizeof(r1) / sizeof(T)); }
    for (int i = 0; i < k && m.empty(); i++) if (std::memcmp(&g[i], &w[i], 10) != 0 && !(std::isnan(g[i]) && std::isnan(w[i])))
      m = fmt("%s: %s with both operands the same object gives %s in slot %d, with an equal copy as second operand %s", tname, what, hexld(g[i]).c_str(), i, hexld(w[i]).c_str());
  };
  const X a = proto, b = proto;
  same("a + a", a + a, a + b); same("a - a", a - a, a - b);
  if constexpr (std::is_same_v<X, Vector<T>> || std::is_same_v<X, PlanarVector<T>>) { same("a.Dot(a)", a.Dot(a), a.Dot(b)); same("a.Cross(a)", a.Cross(a), a.Cross(b)); same("a.Dyadic(a)", a.Dyadic(a), a.Dyadic(b)); }
  else { same("a * a", a * a, a * b); }
  { X x = proto, y = proto; x += x; y += b; same("a += a", x, y); }
  { X x = proto, y = proto; x -= x; y -= b; same("a -= a", x, y); }
  { X x = proto; const X& r = x; x = r; same("a = a", x, b); }
  (void)n;
  return m;
}
template <class T> static std::string self_lib(int shape, const LD* a) {
  if (shape == 2) return self_ops<T>("PlanarVector", mk2<T>(a), 2);
  if (shape == 3) return self_ops<T>("Vector", mk3<T>(a), 3);
  if (shape == 6) {
    std::string m = self_ops<T>("SymmetricDyad", mk6<T>(a), 6); if (!m.empty()) return m;
    // mixed products with the embedding: S * D(S) and D(S) * S against D(S) * D(S) are covered by c09.embedding; here S * S through one object against the general type
    return m;
  }
  return self_ops<T>("Dyad", mk9<T>(a), 9);
}
static Verdict c09_self(const Case& c) {
  const int nt = (int)c.i[0], n = (int)c.i[1];
  LD a[9]; for (int i = 0; i < n; i++) a[i] = round_to(nt, c.r[(size_t)i]);
  const std::string m = nt == 0 ? self_lib<float>(n, a) : nt == 1 ? self_lib<double>(n, a) : self_lib<long double>(n, a);
  if (!m.empty()) return Verdict::fail(m + fmt(" [%s, components %s]", ntinfo(nt).name, cs(a, n).c_str()));
  Verdict V; V.cls = std::string(ntinfo(nt).name) + ";shape" + std::to_string(n); V.nontrivial = true; for (int i = 0; i < n; i++) for (int j = i + 1; j < n; j++) if (a[i] == a[j]) V.nontrivial = false;
  return V;
}

// ================================================================================================ remaining public members of the math types (for C20)
template <class T> static std::string api_lib(int shape, const LD* a, const LD* b) {
  auto cmp = [&](const char* what, const LD* got, const LD* want, int n) -> std::string {
    for (int i = 0; i < n; i++) { const LD w = (LD)(T)want[i]; if (std::memcmp(&got[i], &w, 10) != 0 && !(got[i] == 0 && w == 0 && std::signbit(got[i]) == std::signbit(w))) return fmt("%s: slot %d is %s, expected %s", what, i, hexld(got[i]).c_str(), hexld(w).c_str()); }
    return ""; };
  LD o[9]; std::string m;
  if (shape == 2) {
    PlanarVector<T> v(std::array<T, 2>{(T)a[0], (T)a[1]}); fl(v, o); if (!(m = cmp("PlanarVector(array)", o, a, 2)).empty()) return m;
    v = std::array<T, 2>{(T)b[0], (T)b[1]}; fl(v, o); if (!(m = cmp("PlanarVector = array", o, b, 2)).empty()) return m;
    o[0] = v.x_y()[0]; o[1] = v.x_y()[1]; if (!(m = cmp("x_y()", o, b, 2)).empty()) return m;
    v.Set_x_y((T)a[0], (T)a[1]); fl(v, o); if (!(m = cmp("Set_x_y(x, y)", o, a, 2)).empty()) return m;
    v.Set_x_y(std::array<T, 2>{(T)b[0], (T)b[1]}); fl(v, o); if (!(m = cmp("Set_x_y(array)", o, b, 2)).empty()) return m;
    v.Mutable_x_y()[1] = (T)a[1]; LD w[2] = {b[0], a[1]}; fl(v, o); if (!(m = cmp("Mutable_x_y()", o, w, 2)).empty()) return m;
    fl(PlanarVector<T>::Zero(), o); LD z[2] = {0, 0}; if (!(m = cmp("Zero()", o, z, 2)).empty()) return m;
  } else if (shape == 3) {
    Vector<T> v(std::array<T, 3>{(T)a[0], (T)a[1], (T)a[2]}); fl(v, o); if (!(m = cmp("Vector(array)", o, a, 3)).empty()) return m;
    v = std::array<T, 3>{(T)b[0], (T)b[1], (T)b[2]}; fl(v, o); if (!(m = cmp("Vector = array", o, b, 3)).empty()) return m;
    for (int i = 0; i < 3; i++) o[i] = v.x_y_z()[(size_t)i]; if (!(m = cmp("x_y_z()", o, b, 3)).empty()) return m;
    v.Set_x_y_z((T)a[0], (T)a[1], (T)a[2]); fl(v, o); if (!(m = cmp("Set_x_y_z(x, y, z)", o, a, 3)).empty()) return m;
    v.Set_x_y_z(std::array<T, 3>{(T)b[0], (T)b[1], (T)b[2]}); fl(v, o); if (!(m = cmp("Set_x_y_z(array)", o, b, 3)).empty()) return m;
    v.Mutable_x_y_z()[2] = (T)a[2]; LD w[3] = {b[0], b[1], a[2]}; fl(v, o); if (!(m = cmp("Mutable_x_y_z()", o, w, 3)).empty()) return m;
    fl(Vector<T>::Zero(), o); LD z[3] = {0, 0, 0}; if (!(m = cmp("Zero()", o, z, 3)).empty()) return m;
  } else if (shape == 6) {
    std::array<T, 6> aa, bb; for (int i = 0; i < 6; i++) { aa[(size_t)i] = (T)a[i]; bb[(size_t)i] = (T)b[i]; }
    SymmetricDyad<T> v(aa); fl(v, o); if (!(m = cmp("SymmetricDyad(array)", o, a, 6)).empty()) return m;
    v.Set_xx_xy_xz_yy_yz_zz(bb); fl(v, o); if (!(m = cmp("Set_xx_xy_xz_yy_yz_zz(array)", o, b, 6)).empty()) return m;
    v.Set_xx_xy_xz_yy_yz_zz((T)a[0], (T)a[1], (T)a[2], (T)a[3], (T)a[4], (T)a[5]); fl(v, o); if (!(m = cmp("Set_xx_xy_xz_yy_yz_zz(6 numbers)", o, a, 6)).empty()) return m;
    for (int i = 0; i < 6; i++) o[i] = v.xx_xy_xz_yy_yz_zz()[(size_t)i]; if (!(m = cmp("xx_xy_xz_yy_yz_zz()", o, a, 6)).empty()) return m;
    v.Mutable_xx_xy_xz_yy_yz_zz()[4] = (T)b[4]; LD w[6]; for (int i = 0; i < 6; i++) w[i] = a[i]; w[4] = b[4]; fl(v, o); if (!(m = cmp("Mutable_xx_xy_xz_yy_yz_zz()", o, w, 6)).empty()) return m;
    // the symmetric partners write the same slot
    v.Set_yx((T)b[1]); v.Set_zx((T)b[2]); v.Mutable_zy() = (T)b[5]; w[1] = b[1]; w[2] = b[2]; w[4] = b[5]; fl(v, o); if (!(m = cmp("Set_yx / Set_zx / Mutable_zy()", o, w, 6)).empty()) return m;
    fl(SymmetricDyad<T>::Zero(), o); LD z[6] = {0, 0, 0, 0, 0, 0}; if (!(m = cmp("Zero()", o, z, 6)).empty()) return m;
  } else {
    std::array<T, 9> aa, bb; for (int i = 0; i < 9; i++) { aa[(size_t)i] = (T)a[i]; bb[(size_t)i] = (T)b[i]; }
    Dyad<T> v(aa); fl(v, o); if (!(m = cmp("Dyad(array)", o, a, 9)).empty()) return m;
    v.Set_xx_xy_xz_yx_yy_yz_zx_zy_zz(bb); fl(v, o); if (!(m = cmp("Set_...(array)", o, b, 9)).empty()) return m;
    v.Set_xx_xy_xz_yx_yy_yz_zx_zy_zz((T)a[0], (T)a[1], (T)a[2], (T)a[3], (T)a[4], (T)a[5], (T)a[6], (T)a[7], (T)a[8]); fl(v, o); if (!(m = cmp("Set_...(9 numbers)", o, a, 9)).empty()) return m;
    for (int i = 0; i < 9; i++) o[i] = v.xx_xy_xz_yx_yy_yz_zx_zy_zz()[(size_t)i]; if (!(m = cmp("xx_..._zz()", o, a, 9)).empty()) return m;
    v.Mutable_xx_xy_xz_yx_yy_yz_zx_zy_zz()[7] = (T)b[7]; LD w[9]; for (int i = 0; i < 9; i++) w[i] = a[i]; w[7] = b[7]; fl(v, o); if (!(m = cmp("Mutable_..._zz()", o, w, 9)).empty()) return m;
    fl(Dyad<T>::Zero(), o); LD z[9] = {0, 0, 0, 0, 0, 0, 0, 0, 0}; if (!(m = cmp("Zero()", o, z, 9)).empty()) return m;
  }
  return "";
}
static Verdict c20_math_api(const Case& c) {
  const int nt = (int)c.i[0], n = (int)c.i[1];
  const std::string m = nt == 0 ? api_lib<float>(n, c.r.data(), c.r.data() + 9) : nt == 1 ? api_lib<double>(n, c.r.data(), c.r.data() + 9) : api_lib<long double>(n, c.r.data(), c.r.data() + 9);
  static const char* tn[] = {"", "", "PlanarVector", "Vector", "", "", "SymmetricDyad", "", "", "Dyad"};
  if (!m.empty()) return Verdict::fail(fmt("%s<%s>: %s", tn[n], ntinfo(nt).name, m.c_str()));
  Verdict V; V.cls = std::string(ntinfo(nt).name) + ";" + tn[n]; V.nontrivial = true; return V;
}

int main(int argc, char** argv) {
  std::vector<Sub> subs;
  {
    Sub s; s.name = "c09.alias"; s.property = "C09"; s.instances = 12; s.n_quick = 1500; s.n_thorough = 30000; s.run = c09_alias;
    s.gen = [](int inst) { static const int shapes[4] = {2, 3, 6, 9}; const int shape = shapes[inst % 4], nt = inst / 4;
      return rc::gen::map(rc::gen::tuple(gen_reals(shape, nt, -6, 6, kNeg), irange(0, 8), irange(0, 1)), [=](const std::tuple<std::vector<LD>, int, int>& t) { Case c; c.i = {nt, shape, std::get<1>(t), std::get<2>(t)}; c.r = std::get<0>(t); return c; }); };
    s.rule = "in-place scaling x *= s and x /= s of the four vector / tensor types where s is an lvalue referring to one of x's own components (every component position): same bits as scaling by a copy of the number; non-trivial: the component is not 0 or 1";
    subs.push_back(s);
  }
  {
    Sub s; s.name = "c09.self"; s.property = "C09"; s.instances = 12; s.n_quick = 1500; s.n_thorough = 30000; s.run = c09_self;
    s.gen = [](int inst) { static const int shapes[4] = {2, 3, 6, 9}; const int shape = shapes[inst % 4], nt = inst / 4;
      return rc::gen::mapcat(irange(0, 1), [=](int integer) {
        auto g = integer ? rc::gen::container<std::vector<LD>>((size_t)shape, rc::gen::map(irange(-64, 64), [](int x) { return (LD)x; })) : gen_reals(shape, nt, -6, 6, kNeg);
        return rc::gen::map(g, [=](const std::vector<LD>& v) { Case c; c.i = {nt, shape}; c.r = v; return c; }); }); };
    s.rule = "every binary operation of the four vector / tensor types with BOTH operands being the same object (a + a, a - a, a * a / Dot / Cross / Dyadic, a += a, a -= a, a = a) against the same operation with an equal copy as "
             "second operand: identical bits; integer and real components; non-trivial: all components distinct";
    subs.push_back(s);
  }
  {
    Sub s; s.name = "c20.math_api"; s.property = "C20"; s.instances = 12; s.n_quick = 1000; s.n_thorough = 20000; s.run = c20_math_api;
    s.gen = [](int inst) { static const int shapes[4] = {2, 3, 6, 9}; const int shape = shapes[inst % 4], nt = inst / 4;
      return rc::gen::map(gen_reals(18, nt, -30, 30, kNeg | kZero), [=](const std::vector<LD>& v) { Case c; c.i = {nt, shape}; c.r = v; return c; }); };
    s.rule = "the remaining public members of the four vector / tensor types (array constructors and assignment, whole-array accessors and mutators, multi-argument setters, symmetric partner setters, Zero) against a plain array; run in the sanitizer flavour for C20";
    subs.push_back(s);
  }
  {
    Sub s; s.name = "c15.math"; s.property = "C15"; s.instances = 12; s.n_quick = 2000; s.n_thorough = 50000; s.run = c15_math;
    s.gen = [](int inst) { static const int shapes[4] = {2, 3, 6, 9}; const int shape = shapes[inst % 4], nt = inst / 4; const int w = nt == 0 ? 20 : 60;
      return rc::gen::map(gen_reals(shape, nt, -w, w, kNeg | kZero), [=](const std::vector<LD>& v) { Case c; c.i = {nt, shape}; c.r = v; return c; }); };
    s.rule = "Print / JSON / XML / YAML / operator<< of PlanarVector, Vector, SymmetricDyad, Dyad x 3 numeric types against the stated layouts assembled from PhQ::Print(component); non-trivial: components pairwise distinct";
    subs.push_back(s);
  }
  {
    Sub s; s.name = "c09.grid"; s.property = "C09"; s.instances = N_OPS * 3; s.n_quick = 1; s.n_thorough = 1; s.exhaustive = true;
    s.gen = [](int inst) { Case c; c.i = {inst / N_OPS, inst % N_OPS}; return rc::gen::just(c); };
    s.run = c09_grid; s.instance_name = [](int inst) { return std::string(kOps[inst % N_OPS].name) + "/" + ntinfo(inst / N_OPS).name; };
    s.rule = "exhaustive small-integer grids ({-2..2} per vector component, {-1,0,1,2} per tensor component, every operation whose grid has <= 2 000 000 points) against index-notation references (Levi-Civita cross product and "
             "determinant, minors for cofactors, adj = cof^T, sum_k A_ik B_kj): bit-exact; Inverse() present exactly when the exact integer determinant is non-zero; non-trivial: no zero component";
    subs.push_back(s);
  }
  {
    Sub s; s.name = "c09.random"; s.property = "C09"; s.instances = N_OPS * 3; s.n_quick = 1500; s.n_thorough = 40000; s.gen = gen_c09_random; s.run = c09_random;
    s.instance_name = [](int inst) { return std::string(kOps[inst % N_OPS].name) + "/" + ntinfo(inst / N_OPS).name; };
    s.rule = "every operation x 3 numeric types on random integer components in [-64,64] (bit-exact) and real components over +-40 binades with unrelated mantissas (4 ulp of the sum of |terms|; determinant 6; magnitude 3); inverse: "
             "integer tensors incl. exactly singular ones (presence) and diagonally dominant real tensors (A * A^-1 = I within 16 cond(A) eps); non-trivial: all components distinct and non-zero";
    subs.push_back(s);
  }
  {
    const int ne = (int)(sizeof(kEmb) / sizeof(kEmb[0]));
    Sub s; s.name = "c09.embedding"; s.property = "C09"; s.instances = ne * 3; s.n_quick = 1500; s.n_thorough = 30000; s.run = c09_embed;
    s.gen = [ne](int inst) { const int e = inst % ne, nt = inst / ne; const Op& o = kOps[kEmb[e].op_small]; const int n = o.na + o.nb;
      const bool symmetric_inverse = kEmb[e].op_small == S_INV;
      return rc::gen::mapcat(irange(0, symmetric_inverse ? 2 : 1), [=](int integer) {
        auto g = integer == 1 ? rc::gen::container<std::vector<LD>>((size_t)n, rc::gen::map(irange(-64, 64), [](int x) { return (LD)x; })) : gen_reals(n, nt, -8, 8, kNeg);
        if (integer == 2) {
          // exactly singular symmetric tensors with full-mantissa components: rows 1 = 2, 2 = 3, 1 = 3, or row 2 = 2 x row 1 (the determinant is exactly zero, not zero up to rounding)
          return rc::gen::map(rc::gen::tuple(gen_reals(3, nt, -8, 8, kNeg), irange(0, 3)), [=](const std::tuple<std::vector<LD>, int>& t) {
            const LD a = std::get<0>(t)[0], b = std::get<0>(t)[1], cc = std::get<0>(t)[2];
            Case c; c.i = {nt, e, 2};
            switch (std::get<1>(t)) { case 0: c.r = {a, a, b, a, b, cc}; break; case 1: c.r = {a, b, b, cc, cc, cc}; break; case 2: c.r = {a, b, a, cc, b, a}; break; default: c.r = {a, 2 * a, b, 4 * a, 2 * b, cc}; }
            return c; });
        }
        return rc::gen::map(g, [=](const std::vector<LD>& v) { Case c; c.i = {nt, e, integer}; c.r = v; return c; }); }); };
    s.instance_name = [ne](int inst) { return std::string(kOps[kEmb[inst % ne].op_small].name) + " vs " + kOps[kEmb[inst % ne].op_big].name; };
    s.rule = "symmetric and planar types against their embeddings in Dyad / Vector (z = 0), operation by operation: bit-equal on integer inputs, within 8 ulp of the sum of |terms| on reals; the inverse of exactly singular real symmetric tensors (equal rows, one row twice another, full-mantissa components) is present / absent in both types alike; non-trivial: no zero component";
    subs.push_back(s);
  }
  {
    Sub s; s.name = "c14.math"; s.property = "C14"; s.instances = 12; s.n_quick = 10000; s.n_thorough = 200000; s.run = c14_math;
    s.gen = [](int inst) { static const int shapes[4] = {2, 3, 6, 9}; const int shape = shapes[inst % 4], nt = inst / 4;
      const LD mx = std::ldexp((LD)2 - eps_of(nt), ntinfo(nt).emax), mn = std::ldexp((LD)1, ntinfo(nt).emin), inf = std::numeric_limits<LD>::infinity();
      auto val = rc::gen::oneOf(rc::gen::element<LD>(-inf, -mx, -1, -mn, -(LD)0, (LD)0, mn, 1, mx, inf), gen_real(nt, -4, 4, kNeg | kZero));
      return rc::gen::map(rc::gen::tuple(rc::gen::container<std::vector<LD>>((size_t)(2 * shape), val), irange(0, shape)), [=](const std::tuple<std::vector<LD>, int>& t) {
        Case c; c.i = {nt, shape}; c.r = std::get<0>(t); for (int i = 0; i < std::get<1>(t); i++) c.r[(size_t)(shape + i)] = c.r[(size_t)i]; return c; }); };
    s.rule = "PlanarVector, Vector, SymmetricDyad, Dyad x 3 numeric types: pairs with forced ties in leading components (pool incl. +-0, +-inf, min, max): six operators = lexicographic comparison, equal => equal hash, std::set / unordered_set sizes and lookups; non-trivial: tie length >= 1";
    subs.push_back(s);
  }
  {
    Sub s; s.name = "c16.math"; s.property = "C16"; s.instances = 6 * 4 * 2; s.n_quick = 2000; s.n_thorough = 40000; s.run = c16_math;
    s.gen = [](int inst) { static const int shapes[4] = {2, 3, 6, 9}; static const int from[6] = {0, 0, 1, 1, 2, 2}, to[6] = {1, 2, 0, 2, 0, 1};
      const int shape = shapes[inst % 4], via = (inst / 4) % 2, pair = inst / 8; const int nt = from[pair], t2 = to[pair]; const int narrow = ntinfo(nt).mant < ntinfo(t2).mant ? nt : t2; const int lim = narrow == 0 ? 100 : narrow == 1 ? 900 : 12000;
      return rc::gen::map(rc::gen::tuple(gen_reals(shape, nt, -lim, lim, kNeg | kZero), irange(0, 17)), [=](const std::tuple<std::vector<LD>, int>& t) { Case c; c.i = {nt, t2, shape, via}; c.r = std::get<0>(t);
        if (std::get<1>(t) < 6 && narrow == t2) to_rounding_ties(c.r, nt, t2, std::get<1>(t));   // one third of the narrowing cases on / next to rounding ties of the target type (double rounding)
        return c; }); };
    s.rule = "the four vector/tensor types x 6 ordered pairs of numeric types x {converting constructor, converting assignment}: every slot has the bits of static_cast<T2>(slot); non-trivial: inexact narrowing or widening";
    subs.push_back(s);
  }
  return engine_main(argc, argv, subs);
}
