// C08 (generated part): strings that are not accepted spellings parse to nothing; accepted spellings parse to the table's value.
// C20 (parsers): ParseNumber<T> and ParseEnumeration<E> are total on arbitrary byte strings and never throw.
#include "units.inc"
#include <cerrno>
#include "engine.hpp"
#include <cstring>

using namespace vf;
using namespace PhQ;

struct EnumType {
  std::string name;
  std::vector<std::pair<std::string, int>> keys;                 // the live spelling table
  std::function<int(const std::string&)> parse;                  // ParseEnumeration<E>: value or -1
  std::function<int(const std::string&, const std::string&)> parse_reusing_buffer;   // parse `first`, then `s`, both placed in the same character buffer
};
static std::vector<EnumType> g_types;
template <class E> static void add_type(const char* name) {
  EnumType t; t.name = name;
  for (auto& kv : Internal::Spellings<E>) t.keys.emplace_back(std::string(kv.first), (int)kv.second);
  std::sort(t.keys.begin(), t.keys.end());
  t.parse = [](const std::string& s) { const std::optional<E> r = ParseEnumeration<E>(s); return r.has_value() ? (int)r.value() : -1; };
  t.parse_reusing_buffer = [](const std::string& first, const std::string& s) {
    // a caller that reads spellings into one line buffer: the second string_view has the address (and often the length) of the first
    static char buf[1 << 16];
    if (first.size() > sizeof buf || s.size() > sizeof buf) return -3;
    std::memcpy(buf, first.data(), first.size()); (void)ParseEnumeration<E>(std::string_view(buf, first.size()));
    std::memcpy(buf, s.data(), s.size()); const std::optional<E> r = ParseEnumeration<E>(std::string_view(buf, s.size()));
    return r.has_value() ? (int)r.value() : -1; };
  g_types.push_back(t);
}
static void load_types() {
#define VF_T(T) add_type<Unit::T>(#T);
  VF_UNIT_TYPES(VF_T)
#undef VF_T
  add_type<UnitSystem>("UnitSystem");
  add_type<ConstitutiveModel::Type>("ConstitutiveModel::Type");
}
static std::string show(const std::string& s) { std::string o; for (unsigned char c : s) { if (c >= 0x20 && c < 0x7f && c != '\\') o += (char)c; else { char b[8]; std::snprintf(b, sizeof b, "\\x%02x", c); o += b; } } return o; }

static Verdict c08_parse(const Case& c) {
  const EnumType& T = g_types[(size_t)c.i[0]];
  const std::string& s = c.s[0];
  const int got = T.parse(s);
  int want = -1; for (auto& kv : T.keys) if (kv.first == s) want = kv.second;
  if (got != want) {
    if (want < 0) return Verdict::fail(fmt("ParseEnumeration<%s>(\"%s\") = %d, but the string is not an accepted spelling", T.name.c_str(), show(s).c_str(), got));
    return Verdict::fail(fmt("ParseEnumeration<%s>(\"%s\") = %d, the spelling table says %d", T.name.c_str(), show(s).c_str(), got, want));
  }
  // the same string parsed right after an accepted spelling of (if possible) the same length, through one reused buffer: a parser that remembers a view of
  // its previous argument answers for the previous string
  if (!T.keys.empty()) {
    std::vector<size_t> same; for (size_t k = 0; k < T.keys.size(); k++) if (T.keys[k].first.size() == s.size() && T.keys[k].first != s) same.push_back(k);
    const size_t h = std::hash<std::string>()(s);
    const std::string& first = same.empty() ? T.keys[h % T.keys.size()].first : T.keys[same[h % same.size()]].first;
    const int got2 = T.parse_reusing_buffer(first, s);
    if (got2 != want && got2 != -3)
      return Verdict::fail(fmt("ParseEnumeration<%s>(\"%s\") = %d when it is called right after ParseEnumeration(\"%s\") on the same character buffer; %s", T.name.c_str(), show(s).c_str(), got2, show(first).c_str(),
                               want < 0 ? "the string is not an accepted spelling" : fmt("the spelling table says %d", want).c_str()));
  }
  Verdict V; V.cls = c.s.size() > 1 ? c.s[1] : "unlabelled"; V.cls += want >= 0 ? ";is-a-key" : ";not-a-key";
  V.nontrivial = want < 0 && c.s.size() > 1 && c.s[1].rfind("edit", 0) == 0;
  V.show = fmt("ParseEnumeration<%s>(\"%s\") -> %d", T.name.c_str(), show(s).c_str(), got);
  return V;
}
static rc::Gen<std::string> gen_bytes(int maxlen) {
  return rc::gen::mapcat(irange(0, maxlen), [](int n) { return rc::gen::container<std::string>((size_t)n, rc::gen::map(irange(0, 255), [](int x) { return (char)x; })); });
}
static rc::Gen<Case> gen_c08(int inst) {
  const EnumType& T = g_types[(size_t)inst];
  const size_t nk = T.keys.size();
  auto key = rc::gen::map(irange(0, (int)nk - 1), [inst](int k) { return g_types[(size_t)inst].keys[(size_t)k].first; });
  auto mutated = rc::gen::map(rc::gen::tuple(key, irange(0, 9), irange(0, 64), irange(0, 255)), [](const std::tuple<std::string, int, int, int>& t) {
    std::string s = std::get<0>(t); const int kind = std::get<1>(t); const size_t pos = s.empty() ? 0 : (size_t)std::get<2>(t) % (s.size() + 1); const char ch = (char)std::get<3>(t);
    std::string label;
    switch (kind) {
      case 0: if (pos < s.size()) { const char o = s[pos]; s[pos] = std::isupper((unsigned char)o) ? (char)std::tolower((unsigned char)o) : (char)std::toupper((unsigned char)o); } label = "edit:case-flip"; break;
      case 1: s.insert(pos, " "); label = "edit:inserted-blank"; break;
      case 2: if (pos < s.size()) s.erase(pos, 1); label = "edit:dropped-byte"; break;
      case 3: { const size_t p = s.find("·"); if (p != std::string::npos) s.replace(p, std::strlen("·"), "*"); else { const size_t q = s.find('*'); if (q != std::string::npos) s.replace(q, 1, "·"); } label = "edit:middle-dot-vs-star"; } break;
      case 4: s = " " + s; label = "edit:leading-blank"; break;
      case 5: s += " "; label = "edit:trailing-blank"; break;
      case 6: s.insert(pos, 1, ch); label = "edit:inserted-byte"; break;
      case 7: if (pos < s.size()) s[pos] = ch; label = "edit:replaced-byte"; break;
      case 8: s += '\0'; label = "edit:trailing-NUL"; break;
      default: s = s + s; label = "edit:doubled"; break;
    }
    return std::make_pair(s, label); });
  auto other = rc::gen::map(rc::gen::tuple(irange(0, (int)g_types.size() - 1), irange(0, 100000)), [](const std::tuple<int, int>& t) { const EnumType& O = g_types[(size_t)std::get<0>(t)]; return std::make_pair(O.keys[(size_t)std::get<1>(t) % O.keys.size()].first, std::string("key-of-another-type")); });
  auto random = rc::gen::map(gen_bytes(12), [](const std::string& s) { return std::make_pair(s, std::string("random-bytes")); });
  auto exact = rc::gen::map(key, [](const std::string& s) { return std::make_pair(s, std::string("accepted-spelling")); });
  return rc::gen::map(rc::gen::oneOf(mutated, mutated, mutated, other, random, exact), [inst](const std::pair<std::string, std::string>& p) { Case c; c.i = {inst}; c.s = {p.first, p.second}; return c; });
}

// ---- ParseNumber ------------------------------------------------------------------------------------------------
template <class T> static T strto(const char* s, char** end);
template <> float strto<float>(const char* s, char** end) { return std::strtof(s, end); }
template <> double strto<double>(const char* s, char** end) { return std::strtod(s, end); }
template <> long double strto<long double>(const char* s, char** end) { return std::strtold(s, end); }
template <class T> static Verdict parse_number_t(int nt, const std::string& s) {
  std::optional<T> got;
  got = ParseNumber<T>(s);   // must not throw: the engine records any exception as a failure
  // oracle: strto* on the same NUL-terminated prefix consumes at least one character without ERANGE
  errno = 0; char* end = nullptr; const T ref = strto<T>(s.c_str(), &end);
  const bool has = end != s.c_str() && errno != ERANGE;
  if (got.has_value() != has) return Verdict::fail(fmt("ParseNumber<%s>(\"%s\") %s, but strto* on the same bytes %s", ntinfo(nt).name, show(s).c_str(), got.has_value() ? "has a value" : "has no value", has ? "parses a number" : "rejects them or reports ERANGE"));
  Verdict V; V.cls = std::string(ntinfo(nt).name) + (has ? ";number" : ";rejected");
  if (has) {
    const T g = got.value();
    if (!(std::isnan(g) && std::isnan(ref)) && std::memcmp(&g, &ref, sizeof(T) == 16 ? 10 : sizeof(T)) != 0) return Verdict::fail(fmt("ParseNumber<%s>(\"%s\") = %s, strto* gives %s", ntinfo(nt).name, show(s).c_str(), hexld(g).c_str(), hexld(ref).c_str()));
  }
  V.nontrivial = !s.empty();
  V.show = fmt("ParseNumber<%s>(\"%s\") -> %s", ntinfo(nt).name, show(s).c_str(), has ? hexld(got.value()).c_str() : "nothing");
  return V;
}
static Verdict c20_parse_number(const Case& c) {
  const int nt = (int)c.i[0];
  return nt == 0 ? parse_number_t<float>(nt, c.s[0]) : nt == 1 ? parse_number_t<double>(nt, c.s[0]) : parse_number_t<long double>(nt, c.s[0]);
}
static rc::Gen<Case> gen_number_text(int nt) {
  static const std::vector<std::string> atoms = {"0", "1", "9", "12", "00", ".", "-", "+", "e", "E", "e+", "e-", "x", "0x", "p", "inf", "nan", "INF", "NaN", "infinity", "nan(1)", " ", "\t", "\n", ",", "1e400", "1e-400", "1e5000", "1e-5000",
                                                 "3.4e38", "1.8e308", "1.2e4932", "1e-45", "4.9e-324", "3.6e-4951", "f", "L", std::string(1, '\0'), "\xc2\xb7", "\xff", "0.1", "1.", ".5", "1e", "1e+", "--1", "+-1", "0x1p-3", "0x.8", "1_000"};
  auto glue = rc::gen::mapcat(irange(0, 6), [](int n) { return rc::gen::map(rc::gen::container<std::vector<int>>((size_t)n, irange(0, (int)atoms.size() - 1)), [](const std::vector<int>& ix) { std::string s; for (int i : ix) s += atoms[(size_t)i]; return s; }); });
  auto printed = rc::gen::map(gen_real(nt, ntinfo(nt).emin - 70, ntinfo(nt).emax + 1 > 16383 ? 16383 : ntinfo(nt).emax, kNeg | kZero), [](LD x) { char b[80]; std::snprintf(b, sizeof b, "%.25Lg", x); return std::string(b); });
  auto wider = rc::gen::map(gen_real(2, -16400, 16383, kNeg), [](LD x) { char b[80]; std::snprintf(b, sizeof b, "%.21Lg", x); return std::string(b); });
  return rc::gen::map(rc::gen::oneOf(glue, glue, printed, wider, gen_bytes(10)), [nt](const std::string& s) { Case c; c.i = {nt}; c.s = {s}; return c; });
}

// PhQ::Lowercase / Uppercase / SnakeCase on arbitrary bytes: same length, ASCII letters mapped, everything else unchanged (blanks -> '_' in snake case)
static Verdict c20_string_helpers(const Case& c) {
  const std::string& s = c.s[0];
  const std::string lo = Lowercase(s), up = Uppercase(s), sn = SnakeCase(s);
  if (lo.size() != s.size() || up.size() != s.size() || sn.size() != s.size()) return Verdict::fail(fmt("Lowercase/Uppercase/SnakeCase(\"%s\") changed the length", show(s).c_str()));
  for (size_t i = 0; i < s.size(); i++) {
    const unsigned char ch = (unsigned char)s[i];
    const char wl = (ch >= 'A' && ch <= 'Z') ? (char)(ch + 32) : (char)ch, wu = (ch >= 'a' && ch <= 'z') ? (char)(ch - 32) : (char)ch, ws = ch == ' ' ? '_' : wl;
    if (lo[i] != wl) return Verdict::fail(fmt("Lowercase(\"%s\")[%zu] = 0x%02x, expected 0x%02x", show(s).c_str(), i, (unsigned char)lo[i], (unsigned char)wl));
    if (up[i] != wu) return Verdict::fail(fmt("Uppercase(\"%s\")[%zu] = 0x%02x, expected 0x%02x", show(s).c_str(), i, (unsigned char)up[i], (unsigned char)wu));
    if (sn[i] != ws) return Verdict::fail(fmt("SnakeCase(\"%s\")[%zu] = 0x%02x, expected 0x%02x", show(s).c_str(), i, (unsigned char)sn[i], (unsigned char)ws));
  }
  Verdict V; V.nontrivial = !s.empty(); V.cls = "string-helpers"; return V;
}

int main(int argc, char** argv) {
  load_types();
  std::vector<Sub> subs;
  {
    Sub s; s.name = "c08.parse"; s.property = "C08"; s.instances = (int)g_types.size(); s.n_quick = 6000; s.n_thorough = 300000; s.gen = gen_c08; s.run = c08_parse;
    s.instance_name = [](int inst) { return g_types[(size_t)inst].name; };
    s.rule = "all 39 enumeration types; generated strings: single edits of accepted spellings (case flip, inserted / leading / trailing blank, dropped, inserted or replaced byte, middle dot <-> star, trailing NUL, doubling), accepted spellings of "
             "other types, random bytes, and accepted spellings themselves; oracle: ParseEnumeration<E>(s) has a value iff s is a key of the live spelling table, and then the table's value; non-trivial: an edited spelling that is not a key";
    subs.push_back(s);
  }
  {
    Sub s; s.name = "c20.parse_number"; s.property = "C20"; s.instances = 3; s.n_quick = 200000; s.n_thorough = 5000000; s.gen = gen_number_text; s.run = c20_parse_number;
    s.instance_name = [](int inst) { return std::string(ntinfo(inst).name); };
    s.rule = "ParseNumber<float|double|long double> on strings glued from number fragments (digits, signs, exponents, hex floats, inf/nan spellings, out-of-range magnitudes, blanks, NUL, non-ASCII), printed numbers of this and of a wider type, "
             "random bytes; oracle: never throws, has a value iff strtof/strtod/strtold on the same NUL-terminated prefix consumes >= 1 character without ERANGE, with identical bits; non-trivial: non-empty input";
    subs.push_back(s);
  }
  {
    Sub s; s.name = "c20.string_helpers"; s.property = "C20"; s.instances = 1; s.n_quick = 50000; s.n_thorough = 1000000; s.run = c20_string_helpers;
    s.gen = [](int) { auto words = rc::gen::map(rc::gen::tuple(irange(0, (int)g_types.size() - 1), irange(0, 100000)), [](const std::tuple<int, int>& t) { const EnumType& O = g_types[(size_t)std::get<0>(t)]; return O.keys[(size_t)std::get<1>(t) % O.keys.size()].first; });
      return rc::gen::map(rc::gen::oneOf(gen_bytes(24), words), [](const std::string& x) { Case c; c.s = {x}; return c; }); };
    s.rule = "PhQ::Lowercase / Uppercase / SnakeCase on arbitrary byte strings (incl. non-ASCII, NUL) and on accepted spellings: length preserved, ASCII letters mapped, other bytes unchanged, blanks -> underscore";
    subs.push_back(s);
  }
  { Sub s = subs[0]; s.name = "c20.parse_enumeration"; s.property = "C20"; s.n_quick = 2000; s.n_thorough = 100000; subs.push_back(s); }
  return engine_main(argc, argv, subs);
}
