// C01 (and the scalar self-conversion part of C02): every unit converts by the factor its own symbol implies.
// Oracle: exact = (x*F_from + O_from - O_to) / F_to with F, O from the symbol expander (tools/symx.py, exact rationals,
// evaluated here in __float128).  The unit/unit-pair/numeric-type part of the quantifier is enumerated, the value is generated.
#include "engine.hpp"
#include <set>
#include "units_iface.hpp"
#include <fstream>

using namespace vf;

struct Factor { bool known = false; Q F = 1, O = 0; bool affine = false; std::string name; };
static std::map<std::string, std::map<int, Factor>> g_factors;  // type -> enumerator value -> factor

static const Q kPi = strtoflt128("3.14159265358979323846264338327950288419716939937510582", nullptr);
static void load_factors() {
  const char* p = std::getenv("VERIF_FACTORS");
  if (!p) { std::fprintf(stderr, "VERIF_FACTORS not set\n"); std::exit(3); }
  std::ifstream f(p);
  std::string type, name, num, den, onum, oden; int val, pi;
  while (f >> type >> val >> name >> num >> den >> pi >> onum >> oden) {
    Factor x; x.known = true; x.name = name;
    x.F = strtoflt128(num.c_str(), nullptr) / strtoflt128(den.c_str(), nullptr);
    for (int k = 0; k < pi; k++) x.F *= kPi;
    for (int k = 0; k > pi; k--) x.F /= kPi;
    x.O = strtoflt128(onum.c_str(), nullptr) / strtoflt128(oden.c_str(), nullptr);
    x.affine = (x.O != 0);
    g_factors[type][val] = x;
  }
}
static const VfUnitType* utype(int nt, int k);
static bool in_normal_range(int nt, Q v);
// unit systems (C07 at value level): exact base magnitudes, declared dimensions, consistent unit per (type, system)
struct SysBase { std::string name; Q L, M, T, H; };
static std::vector<SysBase> g_sys;
static std::map<std::string, std::vector<int>> g_dims;                       // type -> 7 exponents
static std::map<std::string, std::map<std::string, int>> g_consistent;       // type -> system -> unit value
static void load_systems() {
  const char* p = std::getenv("VERIF_FACTORS"); if (!p) return;
  std::ifstream f(std::string(p) + ".systems");
  std::string tag;
  while (f >> tag) {
    if (tag == "BASE") { SysBase b; std::string n[8]; f >> b.name; for (auto& x : n) f >> x; auto fr = [&](int i) { return strtoflt128(n[i].c_str(), nullptr) / strtoflt128(n[i + 1].c_str(), nullptr); }; b.L = fr(0); b.M = fr(2); b.T = fr(4); b.H = fr(6); g_sys.push_back(b); }
    else if (tag == "DIMS") { std::string t; f >> t; std::vector<int> d(7); for (auto& x : d) f >> x; g_dims[t] = d; }
    else if (tag == "SYS") { std::string t, s; int v; f >> t >> s >> v; g_consistent[t][s] = v; }
  }
}
static Q ipow(Q b, int e) { Q r = 1; for (int i = 0; i < (e < 0 ? -e : e); i++) r *= b; return e < 0 ? 1 / r : r; }
// In each system, a value in the consistent unit converts to the standard unit by exactly the product of the system's base units raised to the
// type's dimension exponents (so that arithmetic on values expressed in one system's units needs no conversion factors) - through the library's
// own conversion of that unit, in every numeric type.
static Verdict check_coherence(const Case& c) {
  const int k = (int)c.i[0], nt = (int)c.i[1]; const LD x = c.r[0];
  const VfUnitType* U = utype(nt, k);
  auto di = g_dims.find(U->name); auto ci = g_consistent.find(U->name);
  if (di == g_dims.end() || ci == g_consistent.end()) return Verdict::skip("no-system-data");
  auto& facs = g_factors[U->name];
  const std::vector<int>& d = di->second;
  long evals = 0, nontriv = 0;
  for (auto& S : g_sys) {
    auto cu = ci->second.find(S.name); if (cu == ci->second.end()) continue;
    int idx = -1; for (int i = 0; i < U->n; i++) if (U->unit_values[i] == cu->second) idx = i;
    if (idx < 0 || U->standard < 0) return Verdict::fail(fmt("%s: the consistent unit of system %s is not a declared enumerator", U->name, S.name.c_str()));
    { auto fi = facs.find(cu->second); if (fi != facs.end() && fi->second.affine) continue; }   // an affine scale (degC, degF) is not a product of base units; K and degR are
    const Q factor = ipow(S.T, d[0]) * ipow(S.L, d[1]) * ipow(S.M, d[2]) * ipow(S.H, d[4]);
    const Q exact_to = (Q)x * factor, exact_from = (Q)x / factor;
    if (in_normal_range(nt, exact_to) && in_normal_range(nt, (Q)x)) {
      const LD got = U->convert(x, idx, U->standard); evals++; if (factor != 1) nontriv++;
      const LD got_static = U->convert_static(x, idx, U->standard);
      const double es = err_ulps(nt, got_static, exact_to, exact_to);
      if (x != 0 && !(es <= 4.0)) return Verdict::fail(fmt("%s: %s in the consistent unit %s of system %s is %s in the standard unit through the compile-time conversion; the product of the system's base units to the type's dimension exponents gives %s (%.3g ulp in %s, allowed 4)",
                                                          U->name, decld(x).c_str(), U->unit_names[idx], S.name.c_str(), decld(got_static).c_str(), qstr(exact_to).c_str(), es, ntinfo(nt).name));
      const double e = err_ulps(nt, got, exact_to, exact_to);
      if (x != 0 && !(e <= 4.0)) return Verdict::fail(fmt("%s: %s in the consistent unit %s of system %s is %s in the standard unit; the product of the system's base units to the type's dimension exponents gives %s (%.3g ulp in %s, allowed 4)",
                                                         U->name, decld(x).c_str(), U->unit_names[idx], S.name.c_str(), decld(got).c_str(), qstr(exact_to).c_str(), e, ntinfo(nt).name));
    }
    if (in_normal_range(nt, exact_from) && in_normal_range(nt, (Q)x)) {
      const LD got = U->convert(x, U->standard, idx); evals++; if (factor != 1) nontriv++;
      const LD got_static = U->convert_static(x, U->standard, idx);
      const double es = err_ulps(nt, got_static, exact_from, exact_from);
      if (x != 0 && !(es <= 4.0)) return Verdict::fail(fmt("%s: %s in the standard unit is %s in the consistent unit %s of system %s through the compile-time conversion; the base units of the system imply %s (%.3g ulp in %s, allowed 4)",
                                                          U->name, decld(x).c_str(), decld(got_static).c_str(), U->unit_names[idx], S.name.c_str(), qstr(exact_from).c_str(), es, ntinfo(nt).name));
      const double e = err_ulps(nt, got, exact_from, exact_from);
      if (x != 0 && !(e <= 4.0)) return Verdict::fail(fmt("%s: %s in the standard unit is %s in the consistent unit %s of system %s; the base units of the system imply %s (%.3g ulp in %s, allowed 4)",
                                                         U->name, decld(x).c_str(), decld(got).c_str(), U->unit_names[idx], S.name.c_str(), qstr(exact_from).c_str(), e, ntinfo(nt).name));
    }
  }
  Verdict V; V.sub_evals = evals; V.sub_nontrivial = nontriv; V.nontrivial = nontriv > 0 && x != 0; V.cls = std::string(ntinfo(nt).name) + ";" + real_class(x);
  if (evals == 0) return Verdict::skip("out-of-range");
  return V;
}

static const VfUnitType* utype(int nt, int k) { return nt == 0 ? vf_units_0(k) : nt == 1 ? vf_units_1(k) : vf_units_2(k); }

// C07 over histories: RelatedUnitSystem / ConsistentUnit are pure table lookups, so any interleaving of lookups (repeated arguments, hits after misses,
// two unit types alternating) must return what a single lookup in a fresh process returned (the introspection dump checked by symx): the system related
// to a unit is s exactly when the unit is the consistent unit of s and of no other system.
static Verdict check_lookups(const Case& c) {
  const int ntypes = vf_units_count_0();
  const int k[2] = {(int)c.i[0], (int)(c.i[1] % ntypes)};
  const int nsys = vf_systems_count();
  auto model_consistent = [&](const VfUnitType* U, int si, int* out) {   // unit value of the consistent unit in system index si
    auto ci = g_consistent.find(U->name); if (ci == g_consistent.end()) return false;
    auto cu = ci->second.find(vf_system_name(si)); if (cu == ci->second.end()) return false;
    *out = cu->second; return true;
  };
  std::vector<std::string> trace;
  int repeats = 0, hits_after_miss = 0; std::set<std::pair<int, int>> seen; bool last_miss[2] = {false, false};
  const size_t nops = (c.i.size() - 2) / 3;
  for (size_t j = 0; j < nops; j++) {
    const int w = (int)(c.i[2 + 3 * j] % 2), kind = (int)(c.i[3 + 3 * j] % 4 == 0 ? 1 : 0), arg = (int)c.i[4 + 3 * j];
    const VfUnitType* U = utype(0, k[w]);
    if (kind == 1) {
      const int si = arg % nsys; int want = 0;
      if (!model_consistent(U, si, &want)) return Verdict::skip("no-system-data");
      const int got = U->consistent_unit(vf_system_value(si));
      trace.push_back(fmt("ConsistentUnit<%s>(%s)", U->name, vf_system_name(si)));
      if (got != want) { std::string t; for (auto& x : trace) t += x + "; "; return Verdict::fail(fmt("after the lookups [%s] the last one returned unit value %d%s, a single lookup in a fresh process returns %d", t.c_str(), got, got == -2 ? " (it threw)" : "", want)); }
    } else {
      const int u = arg % U->n;
      int want = -1, count = 0;
      for (int si = 0; si < nsys; si++) { int cu = 0; if (!model_consistent(U, si, &cu)) return Verdict::skip("no-system-data"); if (cu == U->unit_values[u]) { want = vf_system_value(si); count++; } }
      if (count != 1) want = -1;
      const int got = U->related_system(u);
      trace.push_back(fmt("RelatedUnitSystem(%s::%s)", U->name, U->unit_names[u]));
      if (!seen.insert({k[w], u}).second) repeats++;
      if (want >= 0 && last_miss[w]) hits_after_miss++;
      last_miss[w] = want < 0;
      if (got != want) { std::string t; for (auto& x : trace) t += x + "; "; return Verdict::fail(fmt("after the lookups [%s] the last one returned system %d, but the unit is the consistent unit of %s (expected %d)", t.c_str(), got, count == 1 ? "exactly that one system" : count == 0 ? "no system" : "several systems", want)); }
    }
  }
  Verdict V; V.nontrivial = repeats > 0 && hits_after_miss > 0;
  V.cls = std::string(repeats ? "repeated-argument" : "no-repeat") + (hits_after_miss ? ";hit-after-miss" : "") + (k[0] != k[1] ? ";two-unit-types" : ";one-unit-type");
  V.sub_evals = (long)nops; V.sub_nontrivial = V.nontrivial ? (long)nops : 0;
  return V;
}

static const double kTolPair = 8.0;   // two legs, <= 3.01 ulp each measured on the pinned tree (DESIGN 2)

// value range: x, the standard-unit intermediate and the result must be normal (with one binade of margin)
static bool in_normal_range(int nt, Q v) {
  Q a = fabsq(v);
  if (a == 0) return true;
  return a >= ldexpq(1, ntinfo(nt).emin + 1) && a <= ldexpq(1, ntinfo(nt).emax - 1);
}

static Verdict check_pairs(const Case& c, bool self_only) {
  const int k = (int)c.i[0], nt = (int)c.i[1];
  const LD x = c.r[0];
  const VfUnitType* U = utype(nt, k);
  auto& fac = g_factors[U->name];
  Verdict v; v.cls = std::string(ntinfo(nt).name) + ";" + real_class(x);
  long evals = 0, nontriv = 0, skipped = 0, unknown = 0;
  for (int a = 0; a < U->n; a++) {
    auto fa = fac.find(U->unit_values[a]);
    if (fa == fac.end()) { unknown++; continue; }
    for (int b = 0; b < U->n; b++) {
      if (self_only && a != b) continue;
      auto fb = fac.find(U->unit_values[b]);
      if (fb == fac.end()) continue;
      const Factor &A = fa->second, &B = fb->second;
      const Q stdv = (Q)x * A.F + A.O;
      const Q exact = (stdv - B.O) / B.F;
      if (!in_normal_range(nt, stdv) || !in_normal_range(nt, exact) || !in_normal_range(nt, (Q)x)) { skipped++; continue; }
      const LD got = U->convert(x, a, b);
      evals++;
      const bool nontrivial = (a != b) && x != 0;
      if (nontrivial) nontriv++;
      if (!std::isfinite(got)) return Verdict::fail(fmt("%s: Convert(%s, %s -> %s) in %s is not finite (%Lg)", U->name, hexld(x).c_str(), U->unit_names[a], U->unit_names[b], ntinfo(nt).name, got));
      if (self_only) {
        // C02: converting a unit to itself is the identity: bit-exact for the standard unit, within the rounding of the two legs otherwise
        if (a == U->standard) {
          if (!same_bits(nt, got, x)) return Verdict::fail(fmt("%s: Convert(%s, %s -> itself) in %s returned %s; the standard unit must be bit-exact", U->name, hexld(x).c_str(), U->unit_names[a], ntinfo(nt).name, hexld(got).c_str()));
        } else {
          // the two legs form x*F+O and back: the largest magnitude necessarily formed is |x| + |O/F| (in the unit's own scale)
          Q scale = fabsq((Q)x);
          if (A.affine) scale += fabsq(A.O / A.F);
          double e = err_ulps(nt, got, (Q)x, scale);
          if (!(e <= 2.0)) return Verdict::fail(fmt("%s: Convert(%s, %s -> itself) in %s returned %s: %.2f ulp from the input (allowed 2)", U->name, hexld(x).c_str(), U->unit_names[a], ntinfo(nt).name, hexld(got).c_str(), e));
        }
        continue;
      }
      Q scale = fabsq(exact);
      if (A.affine || B.affine) {
        Q s2 = fabsq((Q)x * A.F / B.F), s3 = fabsq(A.O / B.F), s4 = fabsq(B.O / B.F), s5 = fabsq(stdv / B.F);
        if (s2 > scale) scale = s2; if (s3 > scale) scale = s3; if (s4 > scale) scale = s4; if (s5 > scale) scale = s5;
      } else if (x == 0) {
        if (got != 0 || std::signbit(got) != std::signbit(x))
          return Verdict::fail(fmt("%s: Convert(%s0, %s -> %s) in %s returned %s; zero must map to zero of the same sign", U->name, std::signbit(x) ? "-" : "+", U->unit_names[a], U->unit_names[b], ntinfo(nt).name, hexld(got).c_str()));
        continue;
      }
      double e = err_ulps(nt, got, exact, scale);
      if (!(e <= kTolPair))
        return Verdict::fail(fmt("%s: Convert(%s = %s, %s -> %s) in %s returned %s, the factor implied by the symbols gives %s: %.3g ulp off (allowed %.0f)", U->name, hexld(x).c_str(), decld(x).c_str(),
                                 U->unit_names[a], U->unit_names[b], ntinfo(nt).name, decld(got).c_str(), qstr(exact).c_str(), e, kTolPair));
    }
  }
  v.sub_evals = evals; v.sub_nontrivial = nontriv; v.nontrivial = nontriv > 0 || (self_only && evals > 0 && x != 0);
  if (self_only) v.sub_nontrivial = (x != 0) ? evals : 0;
  if (evals == 0) return Verdict::skip("all-pairs-out-of-range");
  if (skipped) v.cls += ";some-pairs-out-of-normal-range";
  if (unknown) v.cls += ";unit-unknown-to-lexicon";
  v.show = fmt("%s x=%s (%s): %ld conversions checked, %ld skipped (out of normal range)", U->name, decld(x).c_str(), ntinfo(nt).name, evals, skipped);
  return v;
}

static Verdict check_static(const Case& c) {
  const int k = (int)c.i[0], nt = (int)c.i[1];
  const LD x = c.r[0];
  const VfUnitType* U = utype(nt, k);
  auto& fac = g_factors[U->name];
  Verdict v; v.cls = std::string(ntinfo(nt).name) + ";" + real_class(x);
  long evals = 0, nontriv = 0, neither_standard = 0, bitdiff = 0;
  if (U->standard < 0) return Verdict::fail(fmt("%s: the standard unit is not a declared enumerator", U->name));
  for (int a = 0; a < U->n; a++) {
    for (int b = 0; b < U->n; b++) {
      auto fa = fac.find(U->unit_values[a]), fb = fac.find(U->unit_values[b]);
      if (fa == fac.end() || fb == fac.end()) continue;
      const Factor &A = fa->second, &B = fb->second;
      const Q stdv = (Q)x * A.F + A.O, exact = (stdv - B.O) / B.F;
      if (!in_normal_range(nt, stdv) || !in_normal_range(nt, exact) || !in_normal_range(nt, (Q)x)) continue;
      const LD got = U->convert_static(x, a, b);
      const LD dyn = U->convert(x, a, b);
      evals++; if (a != b && x != 0) nontriv++;
      if (a != U->standard && b != U->standard && a != b) neither_standard++;
      Q scale = fabsq(exact);
      if (A.affine || B.affine) { Q s2 = fabsq((Q)x * A.F / B.F), s3 = fabsq(A.O / B.F), s4 = fabsq(B.O / B.F); if (s2 > scale) scale = s2; if (s3 > scale) scale = s3; if (s4 > scale) scale = s4; }
      if (!(A.affine || B.affine) && x == 0) { if (got != 0) return Verdict::fail(fmt("%s: ConvertStatically<%s -> %s>(0) = %s", U->name, U->unit_names[a], U->unit_names[b], hexld(got).c_str())); continue; }
      // C02: the compile-time and the run-time entry points agree to within one ulp (on the pinned tree they are bit-identical: counted as a class)
      if (!same_bits(nt, got, dyn)) {
        bitdiff++;
        const double d = err_ulps(nt, got, (Q)dyn, scale);
        if (!(d <= 1.0))
          return Verdict::fail(fmt("%s: ConvertStatically<%s -> %s>(%s) in %s = %s differs from the run-time Convert = %s by %.3g ulp (allowed 1)", U->name, U->unit_names[a], U->unit_names[b], hexld(x).c_str(), ntinfo(nt).name, hexld(got).c_str(), hexld(dyn).c_str(), d));
      }
      double e = err_ulps(nt, got, exact, scale);
      if (!(e <= kTolPair))
        return Verdict::fail(fmt("%s: ConvertStatically<%s -> %s>(%s) in %s returned %s, symbols imply %s: %.3g ulp off (allowed %.0f)", U->name, U->unit_names[a], U->unit_names[b], decld(x).c_str(), ntinfo(nt).name, decld(got).c_str(), qstr(exact).c_str(), e, kTolPair));
    }
  }
  if (neither_standard) v.cls += ";pairs-without-the-standard-unit";
  v.cls += bitdiff ? ";static-within-1ulp-of-run-time" : ";static-bit-equal-to-run-time";
  v.sub_evals = evals; v.sub_nontrivial = nontriv; v.nontrivial = nontriv > 0;
  if (evals == 0) return Verdict::skip("all-out-of-range");
  return v;
}

// C02: every container overload of the free conversion functions agrees, slot by slot, with the plain scalar Convert
static const char* kShape[] = {"scalar", "std::array", "std::vector", "PlanarVector", "Vector", "SymmetricDyad", "Dyad"};
static const char* kForm[] = {"Convert", "ConvertInPlace", "ConvertStatically"};
static Verdict check_containers(const Case& c) {
  const int k = (int)c.i[0], nt = (int)c.i[1], shape = (int)c.i[2], form = (int)c.i[3];
  const VfUnitType* U = utype(nt, k);
  int from = (int)(c.i[4] % U->n), to = (int)(c.i[5] % U->n);
  int n = shape == 0 ? 1 : shape == 1 ? 1 + (int)(c.i[6] % 9) : shape == 2 ? (int)(c.i[6] % 18) : shape == 3 ? 2 : shape == 4 ? 3 : shape == 5 ? 6 : 9;
  if (form == 2) {
    // compile-time forms are instantiated for: to == standard, from == standard, to == from + {0, 1, 2} (cyclic)
    if (shape == 1) n = 3;
    if (shape == 2) return Verdict::skip("form-not-applicable");
    const int mode = (int)(c.i[6] % 5);
    if (mode == 0) from = U->standard; else if (mode == 1) to = U->standard; else to = (from + (mode - 2)) % U->n;
  }
  std::vector<LD> in(c.r.begin(), c.r.begin() + n), out((size_t)n + 1), after((size_t)n + 1);
  const int got = U->convert_container(shape, form, in.data(), n, from, to, out.data(), after.data());
  if (got == -1) return Verdict::skip("form-not-applicable");
  const std::string what = fmt("%s of %s (%d values) for %s %s -> %s in %s", kForm[form], kShape[shape], n, U->name, U->unit_names[from], U->unit_names[to], ntinfo(nt).name);
  if (got != n) return Verdict::fail(what + fmt(": %d values came back", got));
  long bitequal = 0, checked = 0;
  for (int i = 0; i < n; i++) {
    const LD ref = U->convert(in[(size_t)i], from, to);
    if (form != 1 && !same_bits(nt, after[(size_t)i], in[(size_t)i])) return Verdict::fail(what + fmt(": the copying form modified its argument: slot %d was %s, is %s", i, hexld(in[(size_t)i]).c_str(), hexld(after[(size_t)i]).c_str()));
    if (!std::isfinite(ref) || (ref != 0 && std::fabs(ref) < std::ldexp((LD)1, ntinfo(nt).emin + 1))) continue;
    checked++;
    if (same_bits(nt, out[(size_t)i], ref)) { bitequal++; continue; }
    const double e = err_ulps(nt, out[(size_t)i], (Q)ref, (Q)ref);
    if (!(e <= 1.0)) return Verdict::fail(what + fmt(": slot %d is %s, the scalar Convert of that slot (%s) gives %s (%.3g ulp, allowed 1)", i, hexld(out[(size_t)i]).c_str(), hexld(in[(size_t)i]).c_str(), hexld(ref).c_str(), e));
  }
  Verdict V; V.cls = std::string(ntinfo(nt).name) + ";" + kShape[shape] + ";" + kForm[form] + (bitequal == checked ? ";bit-equal" : ";within-1ulp");
  if (form == 2 && from != U->standard && to != U->standard && from != to) V.cls += ";neither-unit-standard";
  bool distinct = true; for (int i = 0; i < n; i++) for (int j = i + 1; j < n; j++) if (in[(size_t)i] == in[(size_t)j]) distinct = false;
  V.nontrivial = n >= 2 && distinct && from != to;
  V.show = what;
  return V;
}

// exponent window per (unit type, numeric type): wide, the per-pair range check discards what leaves the normal range
static rc::Gen<Case> gen_case(int inst, int ntypes) {
  const int k = inst % ntypes, nt = inst / ntypes;
  const VfUnitType* U = utype(nt, k);
  const bool temperature = std::string(U->name) == "Temperature";
  // "for every sign and magnitude that does not overflow": the whole exponent range of the numeric type (pairs whose standard-unit intermediate
  // or result leaves the normal range are skipped per pair), with the top and bottom 16 binades over-represented
  const int lo = ntinfo(nt).emin + 1, hi = ntinfo(nt).emax - 1;
  auto wide = gen_real(nt, lo, hi, kNeg | kZero);
  auto top = gen_real(nt, hi - 16, hi, kNeg);
  auto bottom = gen_real(nt, lo, lo + 16, kNeg);
  auto mid = gen_real(nt, -12, 24, kNeg | kZero);
  rc::Gen<LD> g = rc::gen::oneOf(wide, wide, mid, mid, top, bottom);
  if (temperature) {
    // around the zero offsets and absolute zero in each scale
    auto near = rc::gen::map(rc::gen::tuple(rc::gen::element<LD>(-273.15L, -459.67L, 273.15L, 459.67L, 0.0L, 491.67L, 32.0L, 100.0L, 212.0L), gen_real(nt, -30, -1, kNeg | kZero)),
                             [nt](const std::tuple<LD, LD>& t) { return round_to(nt, std::get<0>(t) * (1 + std::get<1>(t))); });
    g = rc::gen::oneOf(wide, mid, near, top, bottom);
  }
  return rc::gen::map(g, [k, nt](LD x) { Case c; c.i = {k, nt}; c.r = {x}; return c; });
}

int main(int argc, char** argv) {
  load_factors(); load_systems();
  const int ntypes = vf_units_count_0();
  std::vector<Sub> subs;
  auto iname = [ntypes](int inst) { return std::string(utype(inst / ntypes, inst % ntypes)->name) + "/" + ntinfo(inst / ntypes).name; };
  {
    Sub s; s.name = "c01.convert"; s.property = "C01"; s.instances = ntypes * 3; s.n_quick = 100; s.n_thorough = 4000;
    s.gen = [ntypes](int inst) { return gen_case(inst, ntypes); };
    s.run = [](const Case& c) { return check_pairs(c, false); };
    s.instance_name = iname;
    s.rule = "enumerated: every unit type x numeric type (instances) and, inside each case, ALL ordered pairs of declared units through PhQ::Convert; generated: the value x (both signs, all binades in which x, the standard-unit "
             "intermediate and the result are normal, zero, small integers, few-bit mantissas, edges; temperatures also near the offsets); oracle: (x*F_from+O_from-O_to)/F_to from the symbol expander in __float128, <= 8 ulp; "
             "non-trivial: from != to and x != 0; distinct = (unit type, numeric type, x, from, to)";
    subs.push_back(s);
  }
  {
    Sub s; s.name = "c01.static"; s.property = "C01"; s.instances = ntypes * 3; s.n_quick = 100; s.n_thorough = 3000;
    s.gen = [ntypes](int inst) { return gen_case(inst, ntypes); };
    s.run = check_static; s.instance_name = iname;
    s.rule = "ConvertStatically<U, From, To> for ALL ordered pairs of declared units (14232 instantiations per numeric type), against the symbol oracle (<= 8 ulp) and within 1 ulp of the run-time Convert (C02; bit-equal on the pinned tree); non-trivial: from != to, x != 0";
    subs.push_back(s);
  }
  {
    Sub s; s.name = "c02.self"; s.property = "C02"; s.instances = ntypes * 3; s.n_quick = 100; s.n_thorough = 3000;
    s.gen = [ntypes](int inst) { return gen_case(inst, ntypes); };
    s.run = [](const Case& c) { return check_pairs(c, true); };
    s.instance_name = iname;
    s.rule = "Convert(x, u, u) for every declared unit u: bit-identical for the standard unit, within 2 ulp (scale max(|x|, |offset|/factor)) otherwise; non-trivial: x != 0";
    subs.push_back(s);
  }
  {
    Sub s; s.name = "c02.containers"; s.property = "C02"; s.instances = ntypes * 3; s.n_quick = 400; s.n_thorough = 20000; s.run = check_containers; s.instance_name = iname;
    s.gen = [ntypes](int inst) { const int k = inst % ntypes, nt = inst / ntypes; const int w = nt == 0 ? 12 : 100;
      return rc::gen::map(rc::gen::tuple(irange(0, 6), irange(0, 2), irange(0, 1000), irange(0, 1000), irange(0, 1000), gen_reals(18, nt, -w, w, kNeg | kZero)),
                          [=](const std::tuple<int, int, int, int, int, std::vector<LD>>& t) { Case c; c.i = {k, nt, std::get<0>(t), std::get<1>(t), std::get<2>(t), std::get<3>(t), std::get<4>(t)}; c.r = std::get<5>(t); return c; }); };
    s.rule = "every unit type x numeric type; generated: container shape (scalar in place, std::array<1..9>, std::vector of 0..17 elements, PlanarVector, Vector, SymmetricDyad, Dyad), form (copying, in-place, compile-time: scalar / array / tensors with to or from the standard unit or to the unit itself and its next two neighbours), unit pair and "
             "distinct slot values; oracle: every slot within 1 ulp of (normally bit-equal to) the plain scalar Convert of that slot, the number of values is preserved, copying forms leave their argument bitwise unchanged; "
             "non-trivial: >= 2 distinct slots and from != to";
    subs.push_back(s);
  }
  {
    Sub s; s.name = "c07.coherence"; s.property = "C07"; s.instances = ntypes * 3; s.n_quick = 60; s.n_thorough = 3000; s.run = check_coherence; s.instance_name = iname;
    s.gen = [ntypes](int inst) { return gen_case(inst, ntypes); };
    s.rule = "value level: for every unit type x numeric type and each of the 4 systems, a generated value in the system's consistent unit converts to / from the standard unit (through the library's own run-time and compile-time conversions) by exactly "
             "L^a M^b T^c Theta^d of the system's base units (exact rationals from the system's abbreviation, __float128) within 4 ulp; non-trivial: factor != 1 and x != 0";
    subs.push_back(s);
  }
  {
    Sub s; s.name = "c07.lookups"; s.property = "C07"; s.instances = ntypes; s.n_quick = 300; s.n_thorough = 20000; s.run = check_lookups;
    s.instance_name = [](int inst) { return std::string(utype(0, inst)->name); };
    s.gen = [ntypes](int inst) {
      // a history of 3..14 lookups on this unit type and a second one; arguments are drawn from a small pool so that repeats and hit-after-miss patterns are frequent
      return rc::gen::map(rc::gen::tuple(irange(0, ntypes - 1), irange(3, 14), rc::gen::container<std::vector<int>>(4, irange(0, 1000)), rc::gen::container<std::vector<int>>(42, irange(0, 1000))),
                          [=](const std::tuple<int, int, std::vector<int>, std::vector<int>>& t) {
                            Case c; c.i = {inst, std::get<0>(t) % 3 == 0 ? std::get<0>(t) : inst};
                            const std::vector<int>& pool = std::get<2>(t); const std::vector<int>& r = std::get<3>(t);
                            for (int j = 0; j < std::get<1>(t); j++) { c.i.push_back(r[(size_t)(3 * j)]); c.i.push_back(r[(size_t)(3 * j + 1)]); c.i.push_back(r[(size_t)(3 * j + 2)] % 3 == 0 ? r[(size_t)(3 * j + 2)] : pool[(size_t)(r[(size_t)(3 * j + 2)] % 4)]); }
                            return c; }); };
    s.rule = "histories of 3..14 RelatedUnitSystem / ConsistentUnit lookups on one or two unit types with arguments drawn from a small pool (repeats, hits after misses, alternating types); oracle: every lookup returns what the "
             "single-lookup table of a fresh process (validated exhaustively by symx against the statement) returns; non-trivial: a repeated argument and a hit directly after a miss on the same unit type";
    subs.push_back(s);
  }
  return engine_main(argc, argv, subs);
}
