// C-like interface for relations between quantities (operators, constructors, member functions), compound assignments and
// the std:: overloads for dimensionless scalars.
#pragma once
typedef long double VfLD;
struct VfArg { const char* name; int ncomp; int kind; int dims[7]; };  // kind: 0 dimensional 1 dimensionless 2 direction 3 plain number 4 raw math type
struct VfRelation {
  const char* name;   // "Length / Time", "Speed(Length,Time)", "Velocity.Magnitude()", "Length += Length"
  int kind;           // 0 '+', 1 '-', 2 '*', 3 '/', 4 constructor, 5 member(), 6 member(arg), 7 '+=', 8 '-=', 9 '*=', 10 '/='
  int nt;
  int nargs; VfArg args[9]; VfArg res;
  const char* member; // member function name for kinds 5, 6
  // in[k]: components for argument k (standard unit); stored[k]: what the built argument actually stores; out: stored result
  void (*f)(const VfLD* const* in, VfLD* const* stored, VfLD* out);
};
struct VfCompound {   // a quantity type that has +=, -= with itself and *=, /= with a number: histories
  const char* name; int nt; int ncomp; int kind;
  // ops: 0 '+= q', 1 '-= q', 2 '*= n', 3 '/= n', 4 'x += x', 5 'x -= x', 6 self copy-assignment, 7 move-assignment from a copy of itself; args: 9 numbers per op (q's components or n); mode 0: compound assignments, 1: x = x op y
  void (*run)(const VfLD* init, const int* ops, const VfLD* args, int nops, int mode, VfLD* after_each, VfLD* stored_args);
};
struct VfStdFn {      // std::f(q) for a dimensionless scalar quantity type
  const char* qname; int nt; const char* fname;
  int binary;         // 1 for pow: exponent types 0 float 1 double 2 long double 3 int
  VfLD (*f)(VfLD x, VfLD y, int exponent_type, VfLD* stored);
};
#define VF_DECL_REL(N, C)                                                                                \
  extern "C" int vf_rel_count_##N##_##C(); extern "C" const VfRelation* vf_rel_##N##_##C(int i);       \
  extern "C" int vf_cmp_count_##N##_##C(); extern "C" const VfCompound* vf_cmp_##N##_##C(int i);       \
  extern "C" int vf_std_count_##N##_##C(); extern "C" const VfStdFn* vf_std_##N##_##C(int i);
#define VF_DECL_REL_NT(N) VF_DECL_REL(N, 0) VF_DECL_REL(N, 1) VF_DECL_REL(N, 2) VF_DECL_REL(N, 3) VF_DECL_REL(N, 4) VF_DECL_REL(N, 5)
VF_DECL_REL_NT(0) VF_DECL_REL_NT(1) VF_DECL_REL_NT(2)
