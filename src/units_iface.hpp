// C-like interface between the rapidcheck engine (no PhQ) and the unit registry (PhQ, no rapidcheck).
#pragma once
typedef long double VfLD;
struct VfUnitType {
  const char* name;
  int n;                          // number of declared enumerators (from the enum declaration itself)
  const char* const* unit_names;  // declared names, in declaration order
  const int* unit_values;         // their underlying values
  int standard;                   // index (not value) of Standard<U> among the declared enumerators, -1 if not declared
  VfLD (*convert)(VfLD x, int from, int to);        // PhQ::Convert(x, from, to) in the numeric type of the table, indices into the declaration
  VfLD (*convert_static)(VfLD x, int from, int to);  // ConvertStatically<U, from, to>: every ordered pair of declared units is instantiated
  // container overloads of the free conversion functions.
  //   shape: 0 scalar (in-place only), 1 std::array<N> (N = n, 1..9), 2 std::vector (n elements, 0..32), 3 PlanarVector, 4 Vector, 5 SymmetricDyad, 6 Dyad
  //   form : 0 Convert (copying), 1 ConvertInPlace, 2 ConvertStatically (instantiated for to == standard, from == standard and to == from + {0,1,2} cyclic; returns -1 otherwise or for unsupported shapes; scalars too)
  //   out: converted values; arg_after: the argument after the call (copying forms must leave it unchanged).  returns the number of values, -1 if not applicable
  int (*convert_container)(int shape, int form, const VfLD* in, int n, int from, int to, VfLD* out, VfLD* arg_after);
  int (*related_system)(int unit_index);   // RelatedUnitSystem(unit): the underlying value of the system, -1 if absent
  int (*consistent_unit)(int system_value); // ConsistentUnit<U>(system): the underlying value of the unit
};
// the declared enumerators of PhQ::UnitSystem (numeric type 0 registry only)
extern "C" int vf_systems_count(); extern "C" const char* vf_system_name(int i); extern "C" int vf_system_value(int i);
extern "C" int vf_units_count_0(); extern "C" const VfUnitType* vf_units_0(int k);
extern "C" int vf_units_count_1(); extern "C" const VfUnitType* vf_units_1(int k);
extern "C" int vf_units_count_2(); extern "C" const VfUnitType* vf_units_2(int k);
