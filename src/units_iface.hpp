// C-like interface between the rapidcheck engine (no PhQ) and the unit registry (PhQ, no rapidcheck).
#pragma once
typedef long double VfLD;
struct VfUnitType {
  const char* name;
  int n;                          // number of declared enumerators (from the enum declaration itself)
  const char* const* unit_names;  // declared names, in declaration order
  const int* unit_values;         // their underlying values
  int standard;                   // index (not value) of Standard<U> among the declared enumerators, -1 if not declared
  VfLD (*convert)(VfLD x, int from, int to);        // PhQ::Convert(x, from, to) in the numeric type of the table, indices into the declaration
  VfLD (*convert_static)(VfLD x, int kind, int u);  // ConvertStatically: kind 0: u -> standard, 1: standard -> u, 2: u -> next declared unit (cyclic)
  // container overloads of the free conversion functions.
  //   shape: 0 scalar (in-place only), 1 std::array<N> (N = n, 1..9), 2 std::vector (n elements, 0..32), 3 PlanarVector, 4 Vector, 5 SymmetricDyad, 6 Dyad
  //   form : 0 Convert (copying), 1 ConvertInPlace, 2 ConvertStatically (requires from or to to be the standard unit; returns -1 otherwise or for unsupported shapes)
  //   out: converted values; arg_after: the argument after the call (copying forms must leave it unchanged).  returns the number of values, -1 if not applicable
  int (*convert_container)(int shape, int form, const VfLD* in, int n, int from, int to, VfLD* out, VfLD* arg_after);
};
extern "C" int vf_units_count_0(); extern "C" const VfUnitType* vf_units_0(int k);
extern "C" int vf_units_count_1(); extern "C" const VfUnitType* vf_units_1(int k);
extern "C" int vf_units_count_2(); extern "C" const VfUnitType* vf_units_2(int k);
