// Quantity registry for one numeric type and one chunk of quantity types (-DVF_NT=k -DVF_CHUNK=j).
#include "phq_helpers.hpp"
#include "qty_iface.hpp"

#ifndef VF_CHUNK
#error "compile with -DVF_CHUNK=0..5"
#endif

using namespace vfh;
using T = VfT;

// everything below depends on the translation unit's numeric type through the alias T: it must have internal linkage,
// otherwise the linker would merge Row<Q> of the float, double and long double objects (ODR)
namespace {

static thread_local std::string g_str;
static const char* ret_str(std::string s, unsigned long* len) { g_str = std::move(s); *len = g_str.size(); return g_str.data(); }

template <class V> static void set_component(V& v, int i, T x, bool via_set) {
  if constexpr (std::is_same_v<V, T>) { v = x; }
  else if constexpr (Sh<V>::n == 2) {
    if (via_set) { if (i == 0) v.Set_x(x); else v.Set_y(x); } else { if (i == 0) v.Mutable_x() = x; else v.Mutable_y() = x; }
  } else if constexpr (Sh<V>::n == 3) {
    if (via_set) { if (i == 0) v.Set_x(x); else if (i == 1) v.Set_y(x); else v.Set_z(x); }
    else { if (i == 0) v.Mutable_x() = x; else if (i == 1) v.Mutable_y() = x; else v.Mutable_z() = x; }
  } else if constexpr (Sh<V>::n == 6) {
    if (via_set) { switch (i) { case 0: v.Set_xx(x); break; case 1: v.Set_xy(x); break; case 2: v.Set_xz(x); break; case 3: v.Set_yy(x); break; case 4: v.Set_yz(x); break; default: v.Set_zz(x); } }
    else { switch (i) { case 0: v.Mutable_xx() = x; break; case 1: v.Mutable_xy() = x; break; case 2: v.Mutable_xz() = x; break; case 3: v.Mutable_yy() = x; break; case 4: v.Mutable_yz() = x; break; default: v.Mutable_zz() = x; } }
  } else {
    if (via_set) { switch (i) { case 0: v.Set_xx(x); break; case 1: v.Set_xy(x); break; case 2: v.Set_xz(x); break; case 3: v.Set_yx(x); break; case 4: v.Set_yy(x); break; case 5: v.Set_yz(x); break; case 6: v.Set_zx(x); break; case 7: v.Set_zy(x); break; default: v.Set_zz(x); } }
    else { switch (i) { case 0: v.Mutable_xx() = x; break; case 1: v.Mutable_xy() = x; break; case 2: v.Mutable_xz() = x; break; case 3: v.Mutable_yx() = x; break; case 4: v.Mutable_yy() = x; break; case 5: v.Mutable_yz() = x; break; case 6: v.Mutable_zx() = x; break; case 7: v.Mutable_zy() = x; break; default: v.Mutable_zz() = x; } }
  }
}

template <class Q, class = void> struct HasSetValue : std::false_type {};
template <class Q> struct HasSetValue<Q, std::void_t<decltype(std::declval<Q&>().SetValue(std::declval<ValueT<Q>>()))>> : std::true_type {};
template <class Q, class = void> struct HasMutableValue : std::false_type {};
template <class Q> struct HasMutableValue<Q, std::void_t<decltype(std::declval<Q&>().MutableValue())>> : std::true_type {};

template <template <class> class QT> struct Row {
  using Q = QT<T>;
  using V = ValueT<Q>;
  static constexpr int N = Sh<V>::n;

  static void roundtrip(const VfLD* in, VfLD* stored) { Q q = make<Q, T>(in); flat(q, stored); }
  static void zero(VfLD* out) { Q q = Q::Zero(); flat(q, out); }
  static void memcpy_array(const VfLD* in, int count, VfLD* out) {
    std::vector<T> raw((size_t)count * N);
    for (size_t i = 0; i < raw.size(); i++) raw[i] = (T)in[i];
    std::vector<Q> qs((size_t)count, make<Q, T>(in));
    if (sizeof(Q) == N * sizeof(T)) std::memcpy(static_cast<void*>(qs.data()), raw.data(), raw.size() * sizeof(T));
    for (int i = 0; i < count; i++) flat(qs[(size_t)i], out + (size_t)i * N);
  }
  static int history(const VfLD* init, const int* ops, const int* comp, const VfLD* args, int nops, VfLD* after) {
    Q q = make<Q, T>(init);
    for (int k = 0; k < nops; k++) {
      const VfLD* a = args + 9 * k;
      switch (ops[k]) {
        case 0: if constexpr (HasSetValue<Q>::value && !IsDirection<Q>::value) q.SetValue(mkv<V, T>(a)); else return -1; break;
        case 1: if constexpr (HasMutableValue<Q>::value && !IsDirection<Q>::value) q.MutableValue() = mkv<V, T>(a); else return -1; break;
        case 2: if constexpr (HasMutableValue<Q>::value && !IsDirection<Q>::value) set_component<V>(q.MutableValue(), comp[k] % N, (T)a[0], false); else return -1; break;
        case 3: if constexpr (HasMutableValue<Q>::value && !IsDirection<Q>::value) set_component<V>(q.MutableValue(), comp[k] % N, (T)a[0], true); else return -1; break;
        case 4: { Q c = make<Q, T>(a); c = q; Q d(c); q = d; } break;
        case 6: { const Q c = make<Q, T>(a); q = c; } break;                      // copy assignment of a given value into the object (which holds state)
        case 7: { Q c = make<Q, T>(a); q = std::move(c); } break;                 // move assignment
        default: { unsigned char buf[sizeof(Q)]; std::memcpy(buf, static_cast<const void*>(&q), sizeof(Q)); Q c = make<Q, T>(a); std::memcpy(static_cast<void*>(&c), buf, sizeof(Q)); q = c; } break;
      }
      flat(q, after + (size_t)k * N);
    }
    return 0;
  }
  static int compare(const VfLD* a, const VfLD* b, VfLD* sa, VfLD* sb) {
    const Q x = make<Q, T>(a), y = make<Q, T>(b);
    flat(x, sa); flat(y, sb);
    return (x == y ? 1 : 0) | (x != y ? 2 : 0) | (x < y ? 4 : 0) | (x > y ? 8 : 0) | (x <= y ? 16 : 0) | (x >= y ? 32 : 0);
  }
  static unsigned long hash(const VfLD* a) { return (unsigned long)std::hash<Q>()(make<Q, T>(a)); }
  static void containers(const VfLD* vals, int count, VfLD* stored, int* out3) {
    std::set<Q> os; std::unordered_set<Q> us; std::vector<Q> all;
    for (int i = 0; i < count; i++) { Q q = make<Q, T>(vals + (size_t)i * N); flat(q, stored + (size_t)i * N); all.push_back(q); os.insert(q); us.insert(q); }
    int found = 0;
    for (auto& q : all) if (os.find(q) != os.end() && us.find(q) != us.end() && os.count(q) == 1 && us.count(q) == 1) found++;
    out3[0] = (int)os.size(); out3[1] = (int)us.size(); out3[2] = found;
  }
  template <class T2> static void cast_to(int via, const Q& src, const VfLD* prior, VfLD* out) {
    using Q2 = QT<T2>;
    if (via == 0) { Q2 r(src); flat(r, out); }
    else if (via == 1) { VfLD z[9] = {7, -3, 5, 11, -13, 2, 17, -19, 23}; Q2 r = make<Q2, T2>(z); r = src; flat(r, out); }   // the target already holds a value: assignment must replace it
    else { Q2 r = make<Q2, T2>(prior); r = src; flat(r, out); }                                                                // ... a value related to the one being assigned
  }
  static void cast(int to_nt, int via, const VfLD* in, const VfLD* prior, VfLD* stored_src, VfLD* out) {
    const Q src = make<Q, T>(in); flat(src, stored_src);
    if (to_nt == 0) { if constexpr (!std::is_same_v<T, float>) cast_to<float>(via, src, prior, out); else flat(src, out); }
    else if (to_nt == 1) { if constexpr (!std::is_same_v<T, double>) cast_to<double>(via, src, prior, out); else flat(src, out); }
    else { if constexpr (!std::is_same_v<T, long double>) cast_to<long double>(via, src, prior, out); else flat(src, out); }
  }
  static const char* print_number(VfLD x, unsigned long* len) { return ret_str(PhQ::Print<T>((T)x), len); }
  static int parse_number(const char* text, unsigned long len, VfLD* out) { const std::optional<T> r = PhQ::ParseNumber<T>(std::string(text, len)); if (!r.has_value()) return 0; *out = r.value(); return 1; }

  // ---- units ---------------------------------------------------------------------------------------------
  template <class Dummy = void> struct Units {
    using U = decltype(Q::Unit());
    using D = Decl<U>;
    static void in_unit(const VfLD* in, int unit, VfLD* stored) { Q q(mkv<V, T>(in), D::e[unit]); flat(q, stored); }
    static void value_unit(const VfLD* stored, int unit, VfLD* out) { const Q q = make<Q, T>(stored); flatv(q.Value(D::e[unit]), out); }
    template <int I> static void sv_one(const Q& q, VfLD* out) { flatv(q.template StaticValue<D::e[I]>(), out); }
    template <std::size_t... I> static void sv_all(const Q& q, int unit, VfLD* out, std::index_sequence<I...>) {
      using F = void (*)(const Q&, VfLD*);
      static constexpr F tab[] = {&sv_one<(int)I>...};
      tab[unit](q, out);
    }
    static void static_value(const VfLD* stored, int unit, VfLD* out) { const Q q = make<Q, T>(stored); sv_all(q, unit, out, std::make_index_sequence<D::n>{}); }
    template <int I> static void cr_one(const VfLD* c, int overload, VfLD* stored) {
      constexpr U u = D::e[I];
      if (overload == 2) { flat(Q::template Create<u>(mkv<V, T>(c)), stored); return; }
      if constexpr (N == 1) { flat(Q::template Create<u>((T)c[0]), stored); }
      else if constexpr (N == 2) {
        if (overload == 0) flat(Q::template Create<u>((T)c[0], (T)c[1]), stored);
        else flat(Q::template Create<u>(std::array<T, 2>{(T)c[0], (T)c[1]}), stored);
      } else if constexpr (N == 3) {
        if (overload == 0) flat(Q::template Create<u>((T)c[0], (T)c[1], (T)c[2]), stored);
        else flat(Q::template Create<u>(std::array<T, 3>{(T)c[0], (T)c[1], (T)c[2]}), stored);
      } else if constexpr (N == 6) {
        if (overload == 0) flat(Q::template Create<u>((T)c[0], (T)c[1], (T)c[2], (T)c[3], (T)c[4], (T)c[5]), stored);
        else flat(Q::template Create<u>(std::array<T, 6>{(T)c[0], (T)c[1], (T)c[2], (T)c[3], (T)c[4], (T)c[5]}), stored);
      } else {
        if (overload == 0) flat(Q::template Create<u>((T)c[0], (T)c[1], (T)c[2], (T)c[3], (T)c[4], (T)c[5], (T)c[6], (T)c[7], (T)c[8]), stored);
        else flat(Q::template Create<u>(std::array<T, 9>{(T)c[0], (T)c[1], (T)c[2], (T)c[3], (T)c[4], (T)c[5], (T)c[6], (T)c[7], (T)c[8]}), stored);
      }
    }
    template <std::size_t... I> static void cr_all(const VfLD* c, int unit, int overload, VfLD* stored, std::index_sequence<I...>) {
      using F = void (*)(const VfLD*, int, VfLD*);
      static constexpr F tab[] = {&cr_one<(int)I>...};
      tab[unit](c, overload, stored);
    }
    static void create(const VfLD* in, int unit, int overload, VfLD* stored) { cr_all(in, unit, overload, stored, std::make_index_sequence<D::n>{}); }
    static const char* unit_abbrev(int unit, unsigned long* len) { return ret_str(std::string(PhQ::Abbreviation(D::e[unit])), len); }
    static VfLD convert_scalar(VfLD x, int from, int to) { return (VfLD)PhQ::Convert<U, T>((T)x, D::e[from], D::e[to]); }
    static std::string print_u(const Q& q, int form, int unit) {
      const U u = D::e[unit];
      switch (form) { case 0: return q.Print(u); case 1: return q.JSON(u); case 2: return q.XML(u); default: return q.YAML(u); }
    }
  };
  static const char* print(const VfLD* in, int form, int unit, unsigned long* len, VfLD* stored) {
    const Q q = make<Q, T>(in);
    flat(q, stored);
    if (unit >= 0) { if constexpr (HasUnit<Q>::value) return ret_str(Units<>::print_u(q, form, unit), len); else return ret_str("", len); }
    switch (form) {
      case 0: return ret_str(q.Print(), len);
      case 1: return ret_str(q.JSON(), len);
      case 2: return ret_str(q.XML(), len);
      case 3: return ret_str(q.YAML(), len);
      default: { std::ostringstream s; s << q; return ret_str(s.str(), len); }
    }
  }

  static VfQuantity row() {
    VfQuantity r{};
    r.name = QName<QT>::v; r.nt = VF_NT; r.ncomp = N; r.kind = kind_of<Q>();
    r.has_dims = HasDims<Q>::value ? 1 : 0; dims_of<Q>(r.dims);
    r.unit_type = ""; r.n_units = 0; r.unit_names = nullptr; r.standard = -1;
    r.size = sizeof(Q); r.align = alignof(Q); r.trivially_copyable = std::is_trivially_copyable_v<Q>; r.standard_layout = std::is_standard_layout_v<Q>; r.polymorphic = std::is_polymorphic_v<Q>;
    r.roundtrip = &roundtrip; r.zero = &zero; r.memcpy_array = &memcpy_array; r.history = &history; r.compare = &compare; r.hash = &hash; r.containers = &containers; r.cast = &cast;
    r.print = &print; r.print_number = &print_number; r.parse_number = &parse_number;
    if constexpr (HasUnit<Q>::value) {
      using UU = Units<>;
      r.unit_type = UU::D::tname; r.n_units = UU::D::n; r.unit_names = UU::D::names;
      for (int i = 0; i < UU::D::n; i++) if (UU::D::e[i] == Q::Unit()) r.standard = i;
      r.in_unit = &UU::in_unit; r.value_unit = &UU::value_unit; r.static_value = &UU::static_value; r.n_create = 3; r.create = &UU::create;
      r.unit_abbrev = &UU::unit_abbrev; r.convert_scalar = &UU::convert_scalar;
    }
    return r;
  }
};

static const std::vector<VfQuantity>& table() {
  static const std::vector<VfQuantity> t = [] {
    std::vector<VfQuantity> v;
#define VF_Q(n) v.push_back(Row<PhQ::n>::row());
    VF_CAT(VF_QCHUNK_, VF_CHUNK)(VF_Q)
#undef VF_Q
    return v;
  }();
  return t;
}
}  // namespace
#define VF_SYM2(name) VF_CAT(VF_CAT(VF_CAT(name, VF_NT), _), VF_CHUNK)
extern "C" int VF_SYM2(vf_qty_count_)() { return (int)table().size(); }
extern "C" const VfQuantity* VF_SYM2(vf_qty_)(int i) { return &table()[(size_t)i]; }
