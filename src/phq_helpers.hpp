// Helpers shared by the registry translation units (they include PhQ; the engine never sees this file).
#pragma once
#include "quantities.inc"
#include "units.inc"
#include "nt.hpp"
#include <array>
#include <cstring>
#include <set>
#include <sstream>
#include <string>
#include <type_traits>
#include <unordered_set>
#include <utility>
#include <vector>

typedef long double VfLD;

namespace vfh {
using namespace PhQ;

// ---- declared enumerators of every unit type (from the enum declarations, via the scanner) ------------------
template <class U> struct Decl;
#define VF_E(T, E) Unit::T::E,
#define VF_N(T, E) #E,
#define VF_T(T)                                                  \
  template <> struct Decl<Unit::T> {                             \
    static constexpr Unit::T e[] = {VF_ENUMS_##T(VF_E)};         \
    static constexpr int n = sizeof(e) / sizeof(e[0]);           \
    static constexpr const char* names[] = {VF_ENUMS_##T(VF_N)}; \
    static constexpr const char* tname = #T;                     \
  };
VF_UNIT_TYPES(VF_T)
#undef VF_T
#undef VF_E
#undef VF_N

// ---- shapes ----------------------------------------------------------------------------------------------
template <class V> struct Sh { static constexpr int n = 1; };
template <class T> struct Sh<PlanarVector<T>> { static constexpr int n = 2; };
template <class T> struct Sh<Vector<T>> { static constexpr int n = 3; };
template <class T> struct Sh<SymmetricDyad<T>> { static constexpr int n = 6; };
template <class T> struct Sh<Dyad<T>> { static constexpr int n = 9; };

template <class T> inline void flatv(T v, VfLD* o) { o[0] = v; }
template <class T> inline void flatv(const PlanarVector<T>& v, VfLD* o) { o[0] = v.x(); o[1] = v.y(); }
template <class T> inline void flatv(const Vector<T>& v, VfLD* o) { o[0] = v.x(); o[1] = v.y(); o[2] = v.z(); }
template <class T> inline void flatv(const SymmetricDyad<T>& v, VfLD* o) { o[0] = v.xx(); o[1] = v.xy(); o[2] = v.xz(); o[3] = v.yy(); o[4] = v.yz(); o[5] = v.zz(); }
template <class T> inline void flatv(const Dyad<T>& v, VfLD* o) {
  o[0] = v.xx(); o[1] = v.xy(); o[2] = v.xz(); o[3] = v.yx(); o[4] = v.yy(); o[5] = v.yz(); o[6] = v.zx(); o[7] = v.zy(); o[8] = v.zz();
}
template <class V, class T> inline V mkv(const VfLD* c) {
  if constexpr (std::is_same_v<V, T>) return (T)c[0];
  else if constexpr (Sh<V>::n == 2) return V((T)c[0], (T)c[1]);
  else if constexpr (Sh<V>::n == 3) return V((T)c[0], (T)c[1], (T)c[2]);
  else if constexpr (Sh<V>::n == 6) return V((T)c[0], (T)c[1], (T)c[2], (T)c[3], (T)c[4], (T)c[5]);
  else return V((T)c[0], (T)c[1], (T)c[2], (T)c[3], (T)c[4], (T)c[5], (T)c[6], (T)c[7], (T)c[8]);
}

template <class Q, class = void> struct HasValue : std::false_type {};
template <class Q> struct HasValue<Q, std::void_t<decltype(std::declval<const Q&>().Value())>> : std::true_type {};
template <class Q, class = void> struct HasUnit : std::false_type {};
template <class Q> struct HasUnit<Q, std::void_t<decltype(Q::Unit())>> : std::true_type {};
template <class Q, class = void> struct HasDims : std::false_type {};
template <class Q> struct HasDims<Q, std::void_t<decltype(Q::Dimensions())>> : std::true_type {};
template <class Q> using ValueT = std::decay_t<decltype(std::declval<const Q&>().Value())>;
template <class Q> struct IsDirection : std::false_type {};
template <class T> struct IsDirection<Direction<T>> : std::true_type {};
template <class T> struct IsDirection<PlanarDirection<T>> : std::true_type {};

template <class Q> constexpr int ncomp() {
  if constexpr (std::is_arithmetic_v<Q>) return 1;
  else if constexpr (HasValue<Q>::value) return Sh<ValueT<Q>>::n;
  else return Sh<Q>::n;
}
template <class Q> inline void flat(const Q& q, VfLD* o) {
  if constexpr (std::is_arithmetic_v<Q>) o[0] = q;
  else if constexpr (HasValue<Q>::value) flatv(q.Value(), o);
  else flatv(q, o);
}
// builds a quantity whose *stored* (standard-unit) components are c (directions normalise: read back with flat)
template <class Q, class T> inline Q make(const VfLD* c) {
  if constexpr (std::is_arithmetic_v<Q>) return (Q)c[0];
  else if constexpr (!HasValue<Q>::value) return mkv<Q, T>(c);
  else {
    using V = ValueT<Q>;
    if constexpr (HasUnit<Q>::value) return Q(mkv<V, T>(c), Q::Unit());
    else return Q(mkv<V, T>(c));
  }
}
template <class Q> inline void dims_of(int* d) {
  for (int k = 0; k < 7; k++) d[k] = 0;
  if constexpr (HasDims<Q>::value) {
    const auto dd = Q::Dimensions();
    d[0] = dd.Time().Value(); d[1] = dd.Length().Value(); d[2] = dd.Mass().Value(); d[3] = dd.ElectricCurrent().Value();
    d[4] = dd.Temperature().Value(); d[5] = dd.SubstanceAmount().Value(); d[6] = dd.LuminousIntensity().Value();
  }
}
// kind: 0 dimensional quantity, 1 dimensionless quantity, 2 direction (normalising), 3 plain number, 4 raw math type
template <class Q> constexpr int kind_of() {
  if constexpr (std::is_arithmetic_v<Q>) return 3;
  else if constexpr (IsDirection<Q>::value) return 2;
  else if constexpr (HasUnit<Q>::value) return 0;
  else if constexpr (HasValue<Q>::value) return 1;
  else return 4;
}

// ---- names of quantity templates ------------------------------------------------------------------------------
template <template <class> class QT> struct QName;
#define VF_Q(n) template <> struct QName<PhQ::n> { static constexpr const char* v = #n; };
VF_QUANTITIES(VF_Q)
#undef VF_Q

template <class Q, class T> struct NameOf { static constexpr const char* v = "number"; };
#define VF_Q(n) template <class T> struct NameOf<PhQ::n<T>, T> { static constexpr const char* v = #n; };
VF_QUANTITIES(VF_Q)
#undef VF_Q

}  // namespace vfh
