"""Per-property plans: which binaries are built and which steps are run for each property."""
import os, sys, json, subprocess, time
import driver as D
from driver import O, NT3, add_engine_binary, BINARIES

# ---- binaries ---------------------------------------------------------------------------------------------
# (engine source is tree-independent and compiled once; registry sources include PhQ and are compiled per tree)
add_engine_binary('units', 'units_engine.cpp', [O('units_reg.cpp', True, d) for d in NT3])

add_engine_binary('qty', 'qty_engine.cpp', [O('qty_reg.cpp', True, ['-DVF_NT=%d' % n, '-DVF_CHUNK=%d' % c]) for n in range(3) for c in range(6)])

add_engine_binary('rel', 'rel_engine.cpp', [O('rel_reg.cpp', True, ['-DVF_NT=%d' % n, '-DVF_CHUNK=%d' % c]) for n in range(3) for c in range(6)])

BINARIES['math'] = dict(objs=[O('math_engine.cpp', True)], libs=D.ENGINE_LIBS)

BINARIES['dir'] = dict(objs=[O('dir_engine.cpp', True)], libs=D.ENGINE_LIBS)

BINARIES['model'] = dict(objs=[O('model_engine.cpp', True)], libs=D.ENGINE_LIBS)

BINARIES['dims'] = dict(objs=[O('dims_engine.cpp', True)], libs=D.ENGINE_LIBS)

BINARIES['enums'] = dict(objs=[O('enum_engine.cpp', True)], libs=D.ENGINE_LIBS)

PLANS = {}
def plan(name):
    def deco(fn): PLANS[name] = fn; return fn
    return deco

def scale_for(run):
    return None

def engine_step(run, binary, filters, need_factors=False, flavour='n', scale=None):
    names = [binary] + (['introspect'] if need_factors else [])
    exes = D.build_or_violation(run, names, flavour)
    if not exes: return
    env = {}
    if need_factors:
        if flavour != 'n':
            exes_n = D.build_or_violation(run, ['introspect'], 'n')
            if not exes_n: return
            env['VERIF_FACTORS'] = D.factors_file(exes_n['introspect'])
        else:
            env['VERIF_FACTORS'] = D.factors_file(exes['introspect'])
    D.run_engine(run, binary, exes[binary], filters, flavour=flavour, scale=scale, extra_env=env)

def engine_step_sharded(run, binary, filters, nshards, flavour='n'):
    """the same engine run split over nshards processes (instances i with i % nshards == shard)"""
    import concurrent.futures as cf, threading
    exes = D.build_or_violation(run, [binary], flavour)
    if not exes: return
    lock = threading.Lock()
    def one(k):
        sub = D.Run(run.prop, run.tier)
        D.run_engine(sub, binary, exes[binary], filters, flavour=flavour, extra_env={'VERIF_SHARD': '%d/%d' % (k, nshards)}, tag='.s%d' % k)
        return sub
    with cf.ThreadPoolExecutor(max_workers=nshards) as ex:
        for sub in ex.map(one, range(nshards)):
            run.evaluations += sub.evaluations; run.nontrivial += sub.nontrivial
            for k, v in sub.classes.items(): run.classes[k] = run.classes.get(k, 0) + v
            for k, v in sub.per_check.items():
                if k in run.per_check:
                    run.per_check[k] = dict(evaluations=run.per_check[k]['evaluations'] + v['evaluations'], distinct_nontrivial=run.per_check[k]['distinct_nontrivial'] + v['distinct_nontrivial'])
                else: run.per_check[k] = v
            run.rules.update(sub.rules); run.samples += sub.samples[:3]; run.notes += sub.notes; run.fails += sub.fails

LEXICON = 'the unit lexicon of DESIGN.md Appendix A (SI brochure, NIST SP 811, 1959 yard-pound agreement)'

@plan('C01')
def c01(run):
    engine_step(run, 'units', ['C01'], need_factors=True)
    run.assumptions += [LEXICON, '__float128 evaluation of the exact rational factors (relative error < 2^-110)', 'tolerance 8 ulp for a two-leg conversion (measured maximum on the pinned tree: 3.01 ulp per leg)']

@plan('C02')
def c02(run):
    engine_step(run, 'units', ['C02'], need_factors=True)
    engine_step(run, 'qty', ['C02'])
    run.assumptions += ['the plain scalar PhQ::Convert is the reference for every other entry point (it is itself validated against the symbol oracle by C01)',
                        'reading of "identity": Convert(x,u,u) is bit-exact for the standard unit and within the rounding of the two legs (2 ulp) otherwise (DESIGN 6)']

@plan('C09')
def c09(run):
    engine_step(run, 'math', ['C09'])
    run.assumptions += ['references are the textbook index-notation formulas evaluated in __float128']

@plan('C10')
def c10(run):
    engine_step(run, 'rel', ['C10'])
    engine_step(run, 'dir', ['C10'])
    run.assumptions += ['lengths are generated inside the stated range with the guard band ||v||^2 >= min_normal 2^(p+2) (below it the squares of the components are subnormal)']

@plan('C11')
def c11(run):
    engine_step(run, 'rel', ['C11'])
    engine_step(run, 'dir', ['C11'])

@plan('C12')
def c12(run):
    engine_step(run, 'model', ['C12'])
    run.assumptions += ['(lambda, nu) at nu = 0 is excluded: it does not determine a material (lambda = 0 for every mu)', '"a few ulps" relative to the measured conditioning of the modulus-pair map (DESIGN 4.6)']

@plan('C13')
def c13(run):
    engine_step(run, 'model', ['C13'])

@plan('C18')
def c18(run):
    engine_step(run, 'rel', ['C18'])

@plan('C14')
def c14(run):
    engine_step(run, 'qty', ['C14'])
    engine_step(run, 'math', ['C14'])
    engine_step(run, 'model', ['C14'])
    engine_step(run, 'dims', ['C14'])
    run.assumptions += ['no NaN components (the statement is about non-NaN values)']

@plan('C15')
def c15(run):
    if run.tier == 'quick':
        engine_step(run, 'qty', ['c15.composite', 'c15.numbers', 'c15.float_sweep'])
    else:
        engine_step(run, 'qty', ['c15.composite', 'c15.numbers'])
        engine_step_sharded(run, 'qty', ['c15.float_all'], 16)   # all 2^32 float bit patterns
    run.assumptions += ['finite normal numbers only (the statement excludes subnormals, infinities and NaN)']

@plan('C16')
def c16(run):
    engine_step(run, 'qty', ['C16'])
    engine_step(run, 'math', ['C16'])
    run.assumptions += ['narrowing is generated only inside the finite range of the narrower type (out-of-range float narrowing is undefined behaviour in C++)']

@plan('C17')
def c17(run):
    engine_step(run, 'qty', ['C17'])

@plan('C03')
def c03(run):
    engine_step(run, 'rel', ['C03'])
    run.assumptions += ['operand windows are chosen so that no scaled operand, intermediate product or result leaves the normal range (DESIGN 5 C03)']

@plan('C04')
def c04(run):
    engine_step(run, 'rel', ['C04'])
    run.assumptions += ['the harness is built without -ffast-math, so the IEEE operation of the engine and of the library agree bit for bit']

@plan('C05')
def c05(run):
    engine_step(run, 'rel', ['C05'])
    run.assumptions += ['"a few ulps" is read relative to the measured conditioning of the composed map: 4(1+kappa) ulp (DESIGN 4.6)']

@plan('C06')
def c06(run):
    exes = D.build_or_violation(run, ['introspect'])
    if exes: D.run_symx(run, 'C06', exes['introspect'])
    engine_step(run, 'dims', ['C06'])
    run.rules['symx.C06'] = ('exhaustive: every unit symbol of every unit type is expanded into the seven base dimensions with the lexicon (Appendix A) and compared '
                             'with RelatedDimensions<U> as reported at run time; every quantity type reports the dimension set of its unit type in all three numeric types; '
                             'distinct = (unit | quantity, numeric type) item')
    run.assumptions += ['the unit lexicon of DESIGN.md Appendix A (SI brochure, NIST SP 811, 1959 yard-pound agreement)']

@plan('C07')
def c07(run):
    exes = D.build_or_violation(run, ['introspect'])
    if exes: D.run_symx(run, 'C07', exes['introspect'])
    run.rules['symx.C07'] = ('exhaustive: 4 systems x 37 unit types: exact (Fraction) magnitude of the consistent unit vs product of the system base units read from the system abbreviation; '
                             'reverse lookup for all 514 units equals the stated function of the forward table; non-trivial = unit type with non-zero dimensions / unit that is consistent in some system')
    run.assumptions += ['the unit lexicon of DESIGN.md Appendix A']

@plan('C08')
def c08(run):
    exes = D.build_or_violation(run, ['introspect'])
    if exes: D.run_symx(run, 'C08', exes['introspect'])
    engine_step(run, 'enums', ['C08'])
    run.rules['symx.C08'] = ('exhaustive: every enumerator of the 39 declarations (names read from the enum declarations) has a unique abbreviation, streams as it, parses back, has both conversion rows; '
                             'every key of the live spelling tables parsed through ParseEnumeration denotes (lexicon, exact) the magnitude of the enumerator it parses to; non-trivial = spelling differs from the abbreviation')
    run.assumptions += ['the unit lexicon of DESIGN.md Appendix A']

@plan('C19')
def c19(run):
    import shutil
    exes = D.build_or_violation(run, ['introspect'])
    if not exes: return
    D.factors_file(exes['introspect'])   # makes sure introspect.json exists
    work = os.path.join(D.tree_dir(), 'c19-%s-%d' % (run.tier, os.getpid()))
    out = work + '.json'
    vt = shutil.which('python3-vt') or sys.executable
    p = subprocess.run([vt, os.path.join(D.VERIF, 'tools', 'c19.py'), D.REPO, work, os.path.join(D.gen_dir(), 'scan.json'), os.path.join(D.tree_dir(), 'introspect.json'), run.tier, str(D.SEED), out],
                       stdout=subprocess.PIPE, stderr=subprocess.STDOUT, text=True)
    if p.returncode != 0 or not os.path.exists(out):
        run.fails.append(dict(kind='harness', key='c19', msg='program generator failed: ' + p.stdout[-1500:])); return
    r = json.load(open(out)); os.remove(out)
    run.evaluations += r['configurations_run']
    # distinct non-trivial: (program, compiler, optimisation level, link order) runs of programs that contain at least one table-backed probe
    run.nontrivial += int(r['configurations_run'] * r['programs_with_table_probes'] / max(1, r['programs']))
    run.classes.update({'c19:' + k: v for k, v in r['classes'].items()})
    run.samples += r['samples']
    run.per_check['c19.programs'] = dict(programs=r['programs'], probes=r['probes'], configurations_run=r['configurations_run'], dispatch_free_programs=r['dispatch_free_programs'])
    run.rules['c19.programs'] = ('programs of 1-3 translation units with 1-5 namespace-scope probes each, generated from a grammar with Hypothesis strategies (seeded): construct in a unit, Value/Print/JSON/XML/YAML in a unit, free Convert on scalars and '
                                 'std::vector, Create/StaticValue, Abbreviation, ParseEnumeration, ConsistentUnit, RelatedUnitSystem, streaming, comparison, Dimensions, constitutive models, relations; built with {g++, clang++} x {-O0, -O2} x both link '
                                 'orders; oracle: exit 0 and every before-main value equals the in-main value; non-trivial: the program has a table-backed probe')
    run.assumptions += ['explores the dynamic-initialisation orders that the installed g++ 12 and clang++ 14 emit; other compilers, LTO and dynamic loading are not covered']
    seen = set()
    for k in r['known']:
        if k['key'] in seen: continue
        seen.add(k['key'])
        run.fails.append(dict(kind='c19', key=k['key'], known_key=k['key'], msg=k['msg'], program=k['program']))
    keep = os.path.join(D.out_root(), 'replays', 'C19')
    for v in r['violations'][:6]:
        os.makedirs(keep, exist_ok=True)
        dst = os.path.join(keep, 'prog-' + D.sha(v['program'], v['msg'])[:12])
        if os.path.isdir(v['program']) and not os.path.exists(dst): shutil.copytree(v['program'], dst)
        run.fails.append(dict(kind='c19', key=v['key'], msg=v['msg'], program=dst))
    shutil.rmtree(work, ignore_errors=True)

def replay_other(f, path):
    if f.get('kind') == 'c19':
        vt = __import__('shutil').which('python3-vt') or sys.executable
        p = subprocess.run([vt, os.path.join(D.VERIF, 'tools', 'c19.py'), '--replay', f['program'], D.REPO], stdout=subprocess.PIPE, stderr=subprocess.STDOUT, text=True)
        print(p.stdout[-3000:])
        if p.returncode != 0:
            print('VIOLATION property=%s replay=%s' % (f['property'], path)); return 1
        return 0
    print('replay: unknown kind %s' % f.get('kind'))
    return 2
