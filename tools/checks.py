"""Per-property plans: which binaries are built and which steps are run for each property."""
import os, sys, json, subprocess, time
import driver as D
from driver import O, NT3, add_engine_binary, BINARIES

# ---- binaries ---------------------------------------------------------------------------------------------
# (engine source is tree-independent and compiled once; registry sources include PhQ and are compiled per tree)
add_engine_binary('units', 'units_engine.cpp', [O('units_reg.cpp', True, d) for d in NT3])

add_engine_binary('qty', 'qty_engine.cpp', [O('qty_reg.cpp', True, ['-DVF_NT=%d' % n, '-DVF_CHUNK=%d' % c]) for n in range(3) for c in range(6)])

add_engine_binary('rel', 'rel_engine.cpp', [O('rel_reg.cpp', True, ['-DVF_NT=%d' % n, '-DVF_CHUNK=%d' % c]) for n in range(3) for c in range(6)])

BINARIES['math'] = dict(objs=[O('math_engine.cpp', True)], libs=D.ENGINE_LIBS)

BINARIES['dir'] = dict(objs=[O('dir_engine.cpp', True)], libs=D.ENGINE_LIBS)

BINARIES['model'] = dict(objs=[O('model_engine.cpp', True)], libs=D.ENGINE_LIBS)

BINARIES['dims'] = dict(objs=[O('dims_engine.cpp', True)], libs=D.ENGINE_LIBS)

BINARIES['enums'] = dict(objs=[O('enum_engine.cpp', True)], libs=D.ENGINE_LIBS)

PLANS = {}
def plan(name):
    def deco(fn): PLANS[name] = fn; return fn
    return deco

def scale_for(run):
    return None

def engine_step(run, binary, filters, need_factors=False, flavour='n', scale=None):
    names = [binary] + (['introspect'] if need_factors else [])
    exes = D.build_or_violation(run, names, flavour)
    if not exes: return
    env = {}
    if need_factors:
        if flavour != 'n':
            exes_n = D.build_or_violation(run, ['introspect'], 'n')
            if not exes_n: return
            env['VERIF_FACTORS'] = D.factors_file(exes_n['introspect'])
        else:
            env['VERIF_FACTORS'] = D.factors_file(exes['introspect'])
    D.run_engine(run, binary, exes[binary], filters, flavour=flavour, scale=scale, extra_env=env)

def engine_step_sharded(run, binary, filters, nshards, flavour='n'):
    """the same engine run split over nshards processes (instances i with i % nshards == shard)"""
    import concurrent.futures as cf, threading
    exes = D.build_or_violation(run, [binary], flavour)
    if not exes: return
    lock = threading.Lock()
    def one(k):
        sub = D.Run(run.prop, run.tier)
        D.run_engine(sub, binary, exes[binary], filters, flavour=flavour, extra_env={'VERIF_SHARD': '%d/%d' % (k, nshards)}, tag='.s%d' % k)
        return sub
    with cf.ThreadPoolExecutor(max_workers=nshards) as ex:
        for sub in ex.map(one, range(nshards)):
            run.evaluations += sub.evaluations; run.nontrivial += sub.nontrivial
            for k, v in sub.classes.items(): run.classes[k] = run.classes.get(k, 0) + v
            for k, v in sub.per_check.items():
                if k in run.per_check:
                    run.per_check[k] = dict(evaluations=run.per_check[k]['evaluations'] + v['evaluations'], distinct_nontrivial=run.per_check[k]['distinct_nontrivial'] + v['distinct_nontrivial'])
                else: run.per_check[k] = v
            run.rules.update(sub.rules); run.samples += sub.samples[:3]; run.notes += sub.notes; run.fails += sub.fails

def fuzz_step(run, total_runs, jobs):
    """libFuzzer on ParseNumber / ParseEnumeration with the differential oracles inside the target; half of the jobs start from an empty
    corpus, half from the accepted spellings and a few numbers; only crash- artefacts count"""
    import concurrent.futures as cf, shutil, glob
    exes = D.build_or_violation(run, ['fuzz_parsers'], 'f')
    exes_n = D.build_or_violation(run, ['introspect'], 'n')
    if not exes or not exes_n: return
    D.factors_file(exes_n['introspect'])
    intro = json.load(open(D.intro_path(exes_n['introspect'])))
    work = os.path.join(D.tree_dir(), 'fuzz-%s-%d' % (run.prop, os.getpid()))
    shutil.rmtree(work, ignore_errors=True); os.makedirs(work)
    seeded = os.path.join(work, 'seed-corpus'); os.makedirs(seeded)
    n = 0
    for ti, e in enumerate(intro['enumerations']):
        for sp, _ in e['spellings'][::3]:
            open(os.path.join(seeded, 's%05d' % n), 'wb').write(bytes([3 + ti]) + sp.encode('utf8')); n += 1
    for k, t in enumerate(['1.5', '-2e10', '0x1p-3', 'inf', 'nan', '1e400', '  7', '1e-320', '12abc', '.5e+3']):
        for sel in range(3): open(os.path.join(seeded, 'n%d_%d' % (k, sel)), 'wb').write(bytes([sel]) + t.encode()); n += 1
    dic = os.path.join(work, 'dict.txt')
    atoms = set()
    for e in intro['enumerations']:
        for sp, _ in e['spellings']:
            for a in sp.replace('/', ' ').replace('·', ' ').replace('*', ' ').replace('^', ' ').split(): atoms.add(a)
    with open(dic, 'w') as f:
        for a in sorted(atoms)[:600]:
            f.write('"' + ''.join('\\x%02x' % b for b in a.encode('utf8')) + '"\n')
        for a in ['e+', 'e-', '0x', 'inf', 'nan', '^2', '^-1', '\\xc2\\xb7', '/', '*', '(', ')']: f.write('"%s"\n' % a)
    def one(k):
        corpus = os.path.join(work, 'corpus%d' % k); os.makedirs(corpus)
        if k % 2 == 1:
            for fn in os.listdir(seeded): shutil.copy(os.path.join(seeded, fn), corpus)
        art = os.path.join(work, 'artifacts%d' % k) + os.sep; os.makedirs(art)
        stats = os.path.join(work, 'stats%d.json' % k)
        env = dict(os.environ, VERIF_FUZZ_STATS=stats, ASAN_OPTIONS='detect_leaks=0:abort_on_error=0', UBSAN_OPTIONS='print_stacktrace=1:halt_on_error=1')
        cmd = [exes['fuzz_parsers'], '-seed=%d' % (D.SEED * 100 + k + 1), '-runs=%d' % max(1, total_runs // jobs), '-max_len=64', '-dict=' + dic, '-artifact_prefix=' + art, '-print_final_stats=1', '-timeout=25', '-rss_limit_mb=2048', corpus]
        p = subprocess.run(cmd, stdout=subprocess.PIPE, stderr=subprocess.PIPE, text=True, errors='replace', env=env)
        st = json.load(open(stats)) if os.path.exists(stats) else None
        execs = 0
        for line in p.stderr.splitlines():
            if line.startswith('stat::number_of_executed_units:'): execs = int(line.split()[-1])
        crashes = [f for f in glob.glob(art + '*') if os.path.basename(f).startswith(('crash-', 'leak-'))]
        msg = next((l for l in p.stderr.splitlines() if l.startswith('ORACLE-FAILURE') or 'runtime error:' in l or 'ERROR: AddressSanitizer' in l or 'uncaught exception' in l.lower() or 'terminate called' in l), '')
        return dict(k=k, execs=execs, stats=st, crashes=crashes, msg=msg, corpus=len(os.listdir(corpus)), rc=p.returncode, seeded=(k % 2 == 1))
    with cf.ThreadPoolExecutor(max_workers=min(jobs, 16)) as ex: results = list(ex.map(one, range(jobs)))
    keep = os.path.join(D.out_root(), 'replays', run.prop)
    tot = sum(r['execs'] for r in results); best = max((r['stats'] or {}).get('distinct_payloads', 0) for r in results)
    run.evaluations += tot; run.nontrivial += best
    run.per_check['fuzz.parsers'] = dict(executions=tot, jobs=jobs, distinct_payloads_largest_job=best, final_corpus_sizes=[r['corpus'] for r in results],
                                         accepted_spellings_hit=sum((r['stats'] or {}).get('accepted_spellings', 0) for r in results), numbers_parsed=sum((r['stats'] or {}).get('parsed_numbers', 0) for r in results))
    run.classes['fuzz:executions-from-empty-corpus'] = sum(r['execs'] for r in results if not r['seeded']); run.classes['fuzz:executions-from-seeded-corpus'] = sum(r['execs'] for r in results if r['seeded'])
    run.rules['fuzz.parsers'] = ('libFuzzer (coverage-guided, ASan+UBSan) on arbitrary bytes: byte 0 selects ParseNumber<float|double|long double> or ParseEnumeration<E> of one of the 39 enumeration types; oracle inside the target: never throws, '
                                 'ParseNumber has a value iff strto* consumes >= 1 byte without ERANGE (identical bits), ParseEnumeration has a value iff the bytes are a key of the live spelling table; half the jobs from an empty corpus, half '
                                 'seeded with spellings and numbers; dictionary of unit atoms; distinct non-trivial = distinct non-empty payloads of the largest job (hash set inside the target)')
    run.samples.append(dict(check='fuzz.parsers', executions=tot, jobs=[dict(seeded=r['seeded'], executions=r['execs'], final_corpus=r['corpus'], stats=r['stats']) for r in results[:4]]))
    for r in results:
        if r['rc'] != 0 and not r['crashes']:
            run.notes.append('fuzz job %d ended with exit %s without a crash artefact (%s): not counted' % (r['k'], r['rc'], r['msg'][:200]))
        for c in r['crashes'][:3]:
            os.makedirs(keep, exist_ok=True); dst = os.path.join(keep, os.path.basename(c)); shutil.copy(c, dst)
            run.fails.append(dict(kind='fuzz', key='fuzz/' + (r['msg'][:120] or os.path.basename(c)), artifact=dst, msg='libFuzzer artefact %s: %s' % (os.path.basename(c), r['msg'] or 'crash')))
    shutil.rmtree(work, ignore_errors=True)

LEXICON = 'the unit lexicon of DESIGN.md Appendix A (SI brochure, NIST SP 811, 1959 yard-pound agreement)'

@plan('C01')
def c01(run):
    engine_step(run, 'units', ['C01'], need_factors=True)
    run.assumptions += [LEXICON, '__float128 evaluation of the exact rational factors (relative error < 2^-110)', 'tolerance 8 ulp for a two-leg conversion (measured maximum on the pinned tree: 3.01 ulp per leg)']

@plan('C02')
def c02(run):
    engine_step(run, 'units', ['C02'], need_factors=True)
    engine_step(run, 'qty', ['C02'], need_factors=True)
    run.assumptions += ['the plain scalar PhQ::Convert is the reference for every other entry point (it is itself validated against the symbol oracle by C01)',
                        'reading of "identity": Convert(x,u,u) is bit-exact for the standard unit and within the rounding of the two legs (2 ulp) otherwise (DESIGN 6)']

@plan('C09')
def c09(run):
    engine_step(run, 'math', ['C09'])
    engine_step(run, 'dir', ['C09'])
    run.assumptions += ['references are the textbook index-notation formulas evaluated in __float128']

@plan('C10')
def c10(run):
    engine_step(run, 'rel', ['C10'])
    engine_step(run, 'dir', ['C10'])
    run.assumptions += ['lengths are generated inside the stated range with the guard band ||v||^2 >= min_normal 2^(p+2) (below it the squares of the components are subnormal)']

@plan('C11')
def c11(run):
    engine_step(run, 'rel', ['C11'])
    engine_step(run, 'dir', ['C11'])

@plan('C12')
def c12(run):
    engine_step(run, 'model', ['C12'])
    run.assumptions += ['(lambda, nu) at nu = 0 is excluded: it does not determine a material (lambda = 0 for every mu)', '"a few ulps" relative to the measured conditioning of the modulus-pair map (DESIGN 4.6)']

@plan('C13')
def c13(run):
    engine_step(run, 'model', ['C13'])

@plan('C18')
def c18(run):
    engine_step(run, 'rel', ['C18'])

@plan('C14')
def c14(run):
    engine_step(run, 'qty', ['C14'])
    engine_step(run, 'math', ['C14'])
    engine_step(run, 'model', ['C14'])
    engine_step(run, 'dims', ['C14'])
    run.assumptions += ['no NaN components (the statement is about non-NaN values)']

@plan('C15')
def c15(run):
    engine_step(run, 'math', ['C15'])
    if run.tier == 'quick':
        engine_step(run, 'qty', ['c15.composite', 'c15.numbers', 'c15.float_sweep'])
    else:
        engine_step(run, 'qty', ['c15.composite', 'c15.numbers'])
        engine_step_sharded(run, 'qty', ['c15.float_all'], 16)   # all 2^32 float bit patterns
    run.assumptions += ['finite normal numbers only (the statement excludes subnormals, infinities and NaN)']

@plan('C16')
def c16(run):
    engine_step(run, 'qty', ['C16'])
    engine_step(run, 'math', ['C16'])
    run.assumptions += ['narrowing is generated only inside the finite range of the narrower type (out-of-range float narrowing is undefined behaviour in C++)']

@plan('C17')
def c17(run):
    engine_step(run, 'qty', ['C17'])

@plan('C03')
def c03(run):
    engine_step(run, 'rel', ['C03'])
    run.assumptions += ['operand windows are chosen so that no scaled operand, intermediate product or result leaves the normal range (DESIGN 5 C03)']

@plan('C04')
def c04(run):
    engine_step(run, 'rel', ['C04'])
    run.assumptions += ['the harness is built without -ffast-math, so the IEEE operation of the engine and of the library agree bit for bit']

@plan('C05')
def c05(run):
    engine_step(run, 'rel', ['C05'])
    engine_step(run, 'dir', ['C05'])
    run.assumptions += ['"a few ulps" is read relative to the measured conditioning of the composed map: 4(1+kappa) ulp (DESIGN 4.6)']

@plan('C06')
def c06(run):
    exes = D.build_or_violation(run, ['introspect'])
    if exes: D.run_symx(run, 'C06', exes['introspect'])
    engine_step(run, 'dims', ['C06'])
    run.rules['symx.C06'] = ('exhaustive: every unit symbol of every unit type is expanded into the seven base dimensions with the lexicon (Appendix A) and compared '
                             'with RelatedDimensions<U> as reported at run time; every quantity type reports the dimension set of its unit type in all three numeric types; '
                             'distinct = (unit | quantity, numeric type) item')
    run.assumptions += ['the unit lexicon of DESIGN.md Appendix A (SI brochure, NIST SP 811, 1959 yard-pound agreement)']

@plan('C07')
def c07(run):
    exes = D.build_or_violation(run, ['introspect'])
    if exes: D.run_symx(run, 'C07', exes['introspect'])
    engine_step(run, 'units', ['C07'], need_factors=True)
    run.rules['symx.C07'] = ('exhaustive: 4 systems x 37 unit types: exact (Fraction) magnitude of the consistent unit vs product of the system base units read from the system abbreviation; '
                             'reverse lookup for all 514 units equals the stated function of the forward table; non-trivial = unit type with non-zero dimensions / unit that is consistent in some system')
    run.assumptions += ['the unit lexicon of DESIGN.md Appendix A']

@plan('C08')
def c08(run):
    exes = D.build_or_violation(run, ['introspect'])
    if exes: D.run_symx(run, 'C08', exes['introspect'])
    engine_step(run, 'enums', ['C08'])
    if run.tier == 'thorough': fuzz_step(run, 20000000, 16)
    run.rules['symx.C08'] = ('exhaustive: every enumerator of the 39 declarations (names read from the enum declarations) has a unique abbreviation, streams as it, parses back, has both conversion rows; '
                             'every key of the live spelling tables parsed through ParseEnumeration denotes (lexicon, exact) the magnitude of the enumerator it parses to; non-trivial = spelling differs from the abbreviation')
    run.assumptions += ['the unit lexicon of DESIGN.md Appendix A']

@plan('C19')
def c19(run):
    import shutil
    exes = D.build_or_violation(run, ['introspect'])
    if not exes: return
    D.factors_file(exes['introspect'])   # makes sure introspect.json exists
    work = os.path.join(D.tree_dir(), 'c19-%s-%d' % (run.tier, os.getpid()))
    out = work + '.json'
    vt = shutil.which('python3-vt') or sys.executable
    p = subprocess.run([vt, os.path.join(D.VERIF, 'tools', 'c19.py'), D.REPO, work, os.path.join(D.gen_dir(), 'scan.json'), D.intro_path(exes['introspect']), run.tier, str(D.SEED), out],
                       stdout=subprocess.PIPE, stderr=subprocess.STDOUT, text=True)
    if p.returncode != 0 or not os.path.exists(out):
        run.fails.append(dict(kind='harness', key='c19', msg='program generator failed: ' + p.stdout[-1500:])); return
    r = json.load(open(out)); os.remove(out)
    run.evaluations += r['configurations_run']
    # distinct non-trivial: (program, compiler, optimisation level, link order) runs of programs that contain at least one table-backed probe
    run.nontrivial += int(r['configurations_run'] * r['programs_with_table_probes'] / max(1, r['programs']))
    run.classes.update({'c19:' + k: v for k, v in r['classes'].items()})
    run.samples += r['samples']
    run.per_check['c19.programs'] = dict(programs=r['programs'], probes=r['probes'], configurations_run=r['configurations_run'], dispatch_free_programs=r['dispatch_free_programs'])
    run.rules['c19.programs'] = ('programs of 1-3 translation units with 1-5 namespace-scope probes each, generated from a grammar with Hypothesis strategies (seeded): construct in a unit, Value/Print/JSON/XML/YAML in a unit, free Convert on scalars and '
                                 'std::vector, Create/StaticValue, Abbreviation, ParseEnumeration, ConsistentUnit, RelatedUnitSystem, streaming, comparison, Dimensions, constitutive models, relations; built with {g++, clang++} x {-O0, -O2} x both link '
                                 'orders; oracle: exit 0 and every before-main value equals the in-main value; non-trivial: the program has a table-backed probe')
    run.assumptions += ['explores the dynamic-initialisation orders that the installed g++ 12 and clang++ 14 emit; other compilers, LTO and dynamic loading are not covered']
    seen = set()
    for k in r['known']:
        if k['key'] in seen: continue
        seen.add(k['key'])
        run.fails.append(dict(kind='c19', key=k['key'], known_key=k['key'], msg=k['msg'], program=k['program']))
    keep = os.path.join(D.out_root(), 'replays', 'C19')
    for v in r['violations'][:6]:
        os.makedirs(keep, exist_ok=True)
        dst = os.path.join(keep, 'prog-' + D.sha(v['program'], v['msg'])[:12])
        if os.path.isdir(v['program']) and not os.path.exists(dst): shutil.copytree(v['program'], dst)
        run.fails.append(dict(kind='c19', key=v['key'], msg=v['msg'], program=dst))
    shutil.rmtree(work, ignore_errors=True)

ENGINE_BINARIES = [('units', True), ('qty', False), ('rel', False), ('math', False), ('dir', False), ('model', False), ('dims', False), ('enums', False)]
SAN_SKIP = 'c09.grid,c15.float_sweep,c15.float_all,c06.box,c14.base_dimensions'   # exhaustive sweeps: covered (in full) by the unsanitised checks

def table_walk_step(run):
    """C20: the introspection dump walks EVERY library table (abbreviations, spellings, consistent units, related systems, both conversion tables of every unit,
    dimension sets) - here in the sanitizer flavour: a table lookup that misses, a dangling key, an invalid enum value die under ASan / UBSan / libstdc++ assertions."""
    exes = D.build_or_violation(run, ['introspect'], 's')
    if not exes: return
    env = dict(os.environ, ASAN_OPTIONS='detect_leaks=0:exitcode=97', UBSAN_OPTIONS='print_stacktrace=1:halt_on_error=1:exitcode=98')
    p = subprocess.run([exes['introspect']], stdout=subprocess.PIPE, stderr=subprocess.PIPE, env=env)
    run.evaluations += 1; run.classes['san:table-walk'] = run.classes.get('san:table-walk', 0) + 1
    if p.returncode != 0:
        run.fails.append(dict(kind='tablewalk', key='tablewalk/' + D.summarise_crash(p.stderr.decode(errors='replace'))[:120],
                              msg='walking every library table (abbreviations, spellings, consistent units, conversions) in the sanitizer build died with exit %s: %s' % (p.returncode, D.summarise_crash(p.stderr.decode(errors='replace'))[:600])))
    else:
        try: n = sum(len(e.get('spellings', [])) + len(e.get('enumerators', [])) for e in json.loads(p.stdout.decode(errors='replace'))['enumerations']); run.evaluations += n; run.nontrivial += n
        except Exception as e: run.fails.append(dict(kind='tablewalk', key='tablewalk/invalid-dump', msg='the table dump of the sanitizer build is not valid JSON: %s' % e))

def valgrind_step(run, binaries, scale):
    """memcheck on the unsanitised engines (stands in for MSan: no instrumented libstdc++ here): only memcheck errors count; valgrind
    computes long double in 64-bit precision, so the engines' own bit-exact oracles are not meaningful under it and are ignored"""
    import concurrent.futures as cf
    exes = D.build_or_violation(run, [b for b, _ in binaries] + ['introspect'], 'n')
    if not exes: return
    fa = D.factors_file(exes['introspect'])
    def one(b):
        log = os.path.join(D.tree_dir(), 'valgrind.%s.%d.log' % (b, os.getpid())); out = log + '.json'
        env = dict(os.environ, VERIF_SEED=str(D.SEED), VERIF_OUT=out, VERIF_SCALE=str(scale), VERIF_SKIP=SAN_SKIP, VERIF_FACTORS=fa)
        p = subprocess.run(['valgrind', '--tool=memcheck', '--undef-value-errors=yes', '--leak-check=no', '--error-limit=no', '--log-file=' + log, exes[b], 'run', 'quick'], stdout=subprocess.PIPE, stderr=subprocess.PIPE, text=True, errors='replace', env=env)
        txt = open(log, errors='replace').read() if os.path.exists(log) else ''
        n = 0; evals = 0
        for line in txt.splitlines():
            if 'ERROR SUMMARY:' in line: n = int(line.split('ERROR SUMMARY:')[1].split()[0])
        if os.path.exists(out):
            try: evals = json.load(open(out))['evaluations']
            except Exception: pass
            os.remove(out)
        first = ''
        if n:
            ls = txt.splitlines()
            for i, line in enumerate(ls):
                if 'uninitialised' in line or 'Invalid read' in line or 'Invalid write' in line or 'Invalid free' in line:
                    first = ' | '.join(x.split('==', 2)[-1].strip() for x in ls[i:i + 8]); break
        if os.path.exists(log): os.remove(log)
        return b, n, evals, first
    with cf.ThreadPoolExecutor(max_workers=8) as ex:
        for b, n, evals, first in ex.map(one, [b for b, _ in binaries]):
            run.evaluations += evals; run.classes['valgrind:' + b + ':evaluations'] = evals
            if n:
                # an error whose stack lies entirely in the generators of the harness (rapidcheck / vf:: frames, no PhQ symbol anywhere) is a defect of the harness, not of the library
                in_harness = 'PhQ' not in first and ('rc::' in first or 'vf::' in first or 'gen_' in first)
                if in_harness: run.fails.append(dict(kind='harness', key='valgrind-harness/' + b, msg='valgrind memcheck reports an error inside the harness itself (%s engine): %s' % (b, first[:600])))
                else: run.fails.append(dict(kind='valgrind', key='valgrind/' + b + '/' + first[:100], binary=b, msg='valgrind memcheck reports %d error(s) in the %s engine: %s' % (n, b, first[:800])))
    run.rules['valgrind'] = 'the unsanitised engines re-run under valgrind memcheck at a small fraction of the quick counts: any use of an uninitialised value, invalid read or write is a failure'

@plan('C20')
def c20(run):
    import concurrent.futures as cf, threading
    quick = run.tier == 'quick'
    # thorough: 50 % of the quick counts per instance (cap 60 000) - under ASan every remembered case costs ~200 bytes, a shard of the relation engine at 200 % needed 11 GB
    scale = 0.15 if quick else 0.5
    names = [b for b, _ in ENGINE_BINARIES]
    exes = D.build_or_violation(run, names, 's')
    exes_n = D.build_or_violation(run, ['introspect'], 'n')
    table_walk_step(run)
    if exes and exes_n:
        fa = D.factors_file(exes_n['introspect'])
        shards = {'qty': 4, 'rel': 6}
        jobs = [(b, k, shards.get(b, 1)) for b in names for k in range(shards.get(b, 1))]
        def one(job):
            b, k, n = job
            sub = D.Run(run.prop, 'quick')
            env = {'VERIF_FACTORS': fa, 'VERIF_SKIP': SAN_SKIP, 'VERIF_MAXN': '20000' if quick else '60000'}
            if n > 1: env['VERIF_SHARD'] = '%d/%d' % (k, n)
            D.run_engine(sub, b, exes[b], [], flavour='s', scale=scale, extra_env=env, tag='.%s%d' % (b, k))
            return sub
        with cf.ThreadPoolExecutor(max_workers=12 if quick else 8) as ex:
            for sub in ex.map(one, jobs):
                run.evaluations += sub.evaluations; run.nontrivial += sub.nontrivial
                for k, v in sub.classes.items(): run.classes[k] = run.classes.get(k, 0) + v
                for k, v in sub.per_check.items():
                    if k in run.per_check: run.per_check[k] = dict(evaluations=run.per_check[k]['evaluations'] + v['evaluations'], distinct_nontrivial=run.per_check[k]['distinct_nontrivial'] + v['distinct_nontrivial'])
                    else: run.per_check[k] = v
                run.samples += sub.samples[:3]; run.notes += sub.notes; run.fails += sub.fails
    run.rules['san'] = ('every rapidcheck property of C01-C18 (all engines) re-run in a build with AddressSanitizer, UndefinedBehaviorSanitizer (incl. enum, signed-integer-overflow, bounds, null, float-cast-overflow; no recovery) and '
                        '_GLIBCXX_ASSERTIONS, at %s of the quick counts; every registry call is wrapped: any exception other than std::bad_alloc is a failure; a sanitizer abort is attributed to the case being run' % ('15%' if quick else '200%'))
    # the same registries compiled by the second supported compiler (clang++ -O2): the oracles are compiler-independent (IEEE arithmetic, exact
    # references), so any disagreement is a defect that only one compiler exposes
    exes_c = D.build_or_violation(run, ['units', 'qty', 'rel'], 'c')
    if exes_c and exes_n:
        fa = D.factors_file(exes_n['introspect'])
        cjobs = [('units', 0, 1), ('qty', 0, 2), ('qty', 1, 2), ('rel', 0, 2), ('rel', 1, 2)]
        def onec(job):
            b, k, n = job
            sub = D.Run(run.prop, 'quick')
            env = {'VERIF_FACTORS': fa, 'VERIF_SKIP': SAN_SKIP, 'VERIF_MAXN': '20000' if quick else '60000'}
            if n > 1: env['VERIF_SHARD'] = '%d/%d' % (k, n)
            D.run_engine(sub, b, exes_c[b], [], flavour='c', scale=0.25 if quick else 2.0, extra_env=env, tag='.c%s%d' % (b, k))
            return sub
        with cf.ThreadPoolExecutor(max_workers=6) as ex:
            for sub in ex.map(onec, cjobs):
                run.evaluations += sub.evaluations; run.nontrivial += sub.nontrivial
                for k, v in sub.classes.items(): run.classes[k] = run.classes.get(k, 0) + v
                for k, v in sub.per_check.items():
                    kk = k
                    if kk in run.per_check: run.per_check[kk] = dict(evaluations=run.per_check[kk]['evaluations'] + v['evaluations'], distinct_nontrivial=run.per_check[kk]['distinct_nontrivial'] + v['distinct_nontrivial'])
                    else: run.per_check[kk] = v
                run.samples += sub.samples[:2]; run.notes += sub.notes; run.fails += sub.fails
    run.rules['clang'] = 'the unit, quantity and relation registries rebuilt with clang++ -O2 and every property over them re-run (the engines and oracles are unchanged)'
    # the parsers on arbitrary bytes: rapidcheck (normal flavour) + libFuzzer
    engine_step(run, 'enums', ['C20'])
    fuzz_step(run, 300000 if quick else 30000000, 4 if quick else 16)
    valgrind_step(run, [('qty', False), ('rel', False), ('model', False)] if quick else ENGINE_BINARIES, 0.002 if quick else 0.02)
    run.assumptions += ['"no undefined behaviour" is bounded by what ASan, UBSan, libstdc++ assertions and valgrind memcheck can observe on the generated cases', 'MSan is not usable here (no instrumented libstdc++): valgrind memcheck stands in for it']

def replay_fuzz(f, path):
    exes = D.build(['fuzz_parsers'], 'f')
    env = dict(os.environ, ASAN_OPTIONS='detect_leaks=0', UBSAN_OPTIONS='halt_on_error=1')
    p = subprocess.run([exes['fuzz_parsers'], f['artifact']], stdout=subprocess.PIPE, stderr=subprocess.PIPE, text=True, errors='replace', env=env)
    msg = next((l for l in p.stderr.splitlines() if l.startswith('ORACLE-FAILURE') or 'runtime error:' in l or 'ERROR: AddressSanitizer' in l), '')
    print('replay: exit %s %s' % (p.returncode, msg))
    if p.returncode != 0:
        print('VIOLATION property=%s replay=%s' % (f['property'], path)); return 1
    return 0

def replay_other(f, path):
    if f.get('kind') == 'fuzz': return replay_fuzz(f, path)
    if f.get('kind') == 'valgrind':
        run = D.Run(f['property'], 'quick'); valgrind_step(run, [(f['binary'], False)], 0.002)
        if run.fails: print('replay: ' + run.fails[0]['msg'][:500]); print('VIOLATION property=%s replay=%s' % (f['property'], path)); return 1
        print('replay: clean now'); return 0
    if f.get('kind') == 'tablewalk':
        run = D.Run(f['property'], 'quick'); table_walk_step(run)
        if run.fails: print('replay: ' + run.fails[0]['msg'][:500]); print('VIOLATION property=%s replay=%s' % (f['property'], path)); return 1
        print('replay: clean now'); return 0
    if f.get('kind') == 'c19':
        vt = __import__('shutil').which('python3-vt') or sys.executable
        p = subprocess.run([vt, os.path.join(D.VERIF, 'tools', 'c19.py'), '--replay', f['program'], D.REPO], stdout=subprocess.PIPE, stderr=subprocess.STDOUT, text=True)
        print(p.stdout[-3000:])
        if p.returncode != 0:
            print('VIOLATION property=%s replay=%s' % (f['property'], path)); return 1
        return 0
    print('replay: unknown kind %s' % f.get('kind'))
    return 2
