#!/bin/bash
# usage: tools/seed_run.sh <seed-id> <Cxx> [tier]     applies seeded/<id>/patch.diff to a scratch copy of /repo's include/ and runs the check against it
set -u
V="$(cd "$(dirname "$0")/.." && pwd)"
exec "$V/tools/mutate.sh" "$V/seeded/$1/patch.diff" "$2" "${3:-quick}"
