#!/bin/bash
# Runs the shipped test-suite against every hand-made mutant (one scratch worktree outside /repo and /verif, incremental ninja builds).
# Output: one line per mutant "<mutant> suite=<passed|FAILED ...>"; results are recorded in mutants/SUITE_RESULTS.txt
V="$(cd "$(dirname "$0")/.." && pwd)"
W=$(mktemp -d /tmp/vfmutsuite.XXXXXX); rmdir "$W"
git -C /repo worktree add --detach "$W" HEAD >/dev/null 2>&1 || exit 3
trap 'git -C /repo worktree remove --force "$W" >/dev/null 2>&1; rm -rf "$W"' EXIT
cd "$W"
cmake -G Ninja -S . -B _build -DPHYSICAL_QUANTITIES_PHQ_TEST=ON -DCMAKE_BUILD_TYPE=RelWithDebInfo -DCMAKE_CXX_FLAGS=-Wno-error > /dev/null 2>&1
cmake --build _build -j${JOBS:-8} > /dev/null 2>&1
: > "$V/mutants/SUITE_RESULTS.txt"
for M in "$V"/mutants/*.sed "$V"/mutants/*.diff; do
  [ -f "$M" ] || continue
  git checkout -q -- include
  case "$M" in
    *.sed) while IFS=$'\t' read -r f e; do [ -z "$f" ] && continue; sed -i -E "$e" "$f"; done < "$M" ;;
    *) patch -s -p1 < "$M" ;;
  esac
  if git diff --quiet; then R="mutant did not change the tree"; else
    if cmake --build _build -j${JOBS:-8} > build.log 2>&1; then
      ctest --test-dir _build -j${JOBS:-8} --timeout 900 > ctest.log 2>&1
      if grep -q "100% tests passed" ctest.log; then R="passed"; else
        ctest --test-dir _build --rerun-failed --timeout 900 > ctest2.log 2>&1
        if grep -q "100% tests passed" ctest2.log; then R="passed (timing tests rerun)"; else R="FAILED: $(grep -E '^\s+[0-9]+ - ' ctest2.log | head -5 | tr '\n' ' ')"; fi
      fi
    else R="BUILD FAILED: $(grep -m1 error build.log | cut -c1-160)"; fi
  fi
  echo "$(basename "$M") suite=$R" | tee -a "$V/mutants/SUITE_RESULTS.txt"
done
