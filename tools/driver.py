"""Driver for the phq verification checks (see DESIGN.md section 3).

Everything is rebuilt from $VERIF_REPO's (default /repo) *current working tree*: the contents of include/ are hashed, objects
live in /verif/build/<hash>/<flavour>/ and are reused only for an identical tree.
"""
import os, sys, json, hashlib, subprocess, time, shutil, fcntl, glob, re, concurrent.futures as cf

VERIF = os.path.dirname(os.path.dirname(os.path.abspath(__file__)))
REPO = os.environ.get('VERIF_REPO', '/repo')
SRC = os.path.join(VERIF, 'src')
BUILD = os.path.join(VERIF, 'build')
JOBS = int(os.environ.get('VERIF_JOBS', '16'))
SEED = int(os.environ.get('VERIF_SEED', '1') or '1') or 1

def log(*a):
    print('[check]', *a, file=sys.stderr, flush=True)

def sha(*parts):
    h = hashlib.sha1()
    for p in parts:
        h.update(p if isinstance(p, bytes) else str(p).encode()); h.update(b'\0')
    return h.hexdigest()

_tree_hash = None
def tree_hash():
    global _tree_hash
    if _tree_hash is None:
        h = hashlib.sha1()
        root = os.path.join(REPO, 'include')
        for dp, dn, fn in sorted(os.walk(root)):
            dn.sort()
            for f in sorted(fn):
                p = os.path.join(dp, f)
                h.update(os.path.relpath(p, root).encode()); h.update(b'\0')
                with open(p, 'rb') as fh: h.update(fh.read())
                h.update(b'\0')
        _tree_hash = h.hexdigest()[:14]
    return _tree_hash

_dep_cache = {}
def local_deps_hash(src):
    """hash of the source file and of every /verif/src header it includes (transitively)"""
    if src in _dep_cache: return _dep_cache[src]
    seen = []; todo = [src]
    while todo:
        f = todo.pop()
        if f in seen or not os.path.exists(f): continue
        seen.append(f)
        for m in re.finditer(r'^\s*#\s*include\s+"([^"]+)"', open(f, encoding='utf8', errors='replace').read(), re.M):
            todo.append(os.path.join(SRC, m.group(1)))
    _dep_cache[src] = sha(*[open(f, 'rb').read() for f in sorted(seen)])
    return _dep_cache[src]

# ---------------------------------------------------------------------------------------------------------
# build description
FLAVOURS = {
    # g++ without -ffast-math and without -DNDEBUG: IEEE semantics, asserts on
    'n': dict(cxx='g++', cflags=['-std=c++17', '-O1', '-g0', '-w', '-fno-fast-math'], ldflags=[]),
    # sanitizer flavour (C20): ASan + UBSan (incl. enum, bounds, signed overflow), libstdc++ assertions; aborts on the first report
    's': dict(cxx='g++', cflags=['-std=c++17', '-O0', '-g1', '-w', '-fsanitize=address,undefined', '-fsanitize=float-cast-overflow', '-fno-sanitize-recover=all', '-fno-omit-frame-pointer', '-D_GLIBCXX_ASSERTIONS'],
              ldflags=['-fsanitize=address,undefined']),
    # Clang flavour: the registry translation units (everything that includes the library) are compiled with clang++ -O2; the engines stay g++
    'c': dict(cxx='g++', cxx_tree='clang++', cflags=['-std=c++17', '-O2', '-g0', '-w'], ldflags=[]),
    # libFuzzer flavour: clang, coverage-guided, ASan + UBSan
    'f': dict(cxx='clang++', cflags=['-std=c++17', '-g', '-O1', '-w', '-fsanitize=fuzzer,address,undefined', '-fno-sanitize-recover=undefined'], ldflags=['-fsanitize=fuzzer,address,undefined']),
}

def O(src, tree, defs=(), opt=None, san=True):
    return dict(src=src, tree=tree, defs=list(defs), opt=opt, san=san)

NT3 = [['-DVF_NT=0'], ['-DVF_NT=1'], ['-DVF_NT=2']]
BINARIES = {
    'introspect': dict(objs=[O('introspect.cpp', True, opt='-O0')], libs=[]),
    'fuzz_parsers': dict(objs=[O('fuzz_parsers.cpp', True)], libs=[]),
}
ENGINE_LIBS = ['-lrapidcheck', '-lquadmath']

def add_engine_binary(name, engine_src, reg_objs):
    BINARIES[name] = dict(objs=[O(engine_src, False)] + reg_objs, libs=ENGINE_LIBS)

def tree_dir():
    return os.path.join(BUILD, tree_hash())

_scan_hash = None
def scan_hash():
    global _scan_hash
    if _scan_hash is None: _scan_hash = sha(open(os.path.join(VERIF, 'tools', 'scan_repo.py'), 'rb').read())[:8]
    return _scan_hash

def gen_dir():
    return os.path.join(tree_dir(), 'gen-' + scan_hash())

class BuildError(Exception):
    def __init__(self, logpath, in_library, first_error):
        self.logpath = logpath; self.in_library = in_library; self.first_error = first_error

def obj_path(o, flavour):
    fl = FLAVOURS[flavour]
    flags = list(fl['cflags'])
    if not o['san'] and flavour == 's':
        flags = [f for f in flags if not f.startswith('-fsanitize') and f != '-fno-sanitize-recover=all']
    if o['opt']: flags = [f for f in flags if not re.fullmatch(r'-O\d', f)] + [o['opt']]
    flags += o['defs']
    src = os.path.join(SRC, o['src'])
    key = sha(local_deps_hash(src), ' '.join(flags), fl.get('cxx_tree', fl['cxx']) if o['tree'] else fl['cxx'], (tree_hash() + scan_hash()) if o['tree'] else 'engine')[:10]
    d = os.path.join(tree_dir() if o['tree'] else os.path.join(BUILD, 'engine'), flavour)
    tag = re.sub(r'[^A-Za-z0-9]+', '', ''.join(o['defs']))
    return os.path.join(d, '%s.%s.%s.o' % (os.path.splitext(o['src'])[0], tag, key)), flags

def compile_obj(o, flavour):
    out, flags = obj_path(o, flavour)
    if os.path.exists(out): return out
    os.makedirs(os.path.dirname(out), exist_ok=True)
    fl = FLAVOURS[flavour]
    cmd = [fl.get('cxx_tree', fl['cxx']) if o['tree'] else fl['cxx']] + flags + ['-I', SRC]
    if o['tree']: cmd += ['-I', gen_dir(), '-I', os.path.join(REPO, 'include')]
    cmd += ['-c', os.path.join(SRC, o['src']), '-o', out + '.tmp']
    t0 = time.time()
    p = subprocess.run(cmd, stdout=subprocess.PIPE, stderr=subprocess.STDOUT, text=True, errors='replace')
    if p.returncode != 0:
        logp = out + '.log'
        with open(logp, 'w') as f: f.write(' '.join(cmd) + '\n' + p.stdout)
        first = ''; in_lib = False
        for line in p.stdout.splitlines():
            if ' error: ' in line or ' error ' in line or 'fatal error' in line:
                first = line.strip()
                in_lib = o['tree'] and line.startswith(os.path.join(REPO, 'include'))
                break
        raise BuildError(logp, in_lib, first)
    os.replace(out + '.tmp', out)
    log('compiled %s %s [%s] %.0fs' % (o['src'], ' '.join(o['defs']), flavour, time.time() - t0))
    return out

def ensure_gen():
    g = gen_dir()
    if os.path.exists(os.path.join(g, 'scan.json')): return
    os.makedirs(g, exist_ok=True)
    p = subprocess.run([sys.executable, os.path.join(VERIF, 'tools', 'scan_repo.py'), REPO, g + '.tmp'], stdout=subprocess.PIPE, stderr=subprocess.STDOUT, text=True)
    if p.returncode != 0:
        raise RuntimeError('scanner failed: ' + p.stdout)
    for f in os.listdir(g + '.tmp'): os.replace(os.path.join(g + '.tmp', f), os.path.join(g, f))
    shutil.rmtree(g + '.tmp', ignore_errors=True)

def prune_builds(keep=4, min_age=4 * 3600):
    """Evicts the least recently used tree directories beyond `keep`.  Never touches a tree that was used in the last four hours or whose lock is held
    (several checks may run against different scratch trees at once; one of them may still be waiting for its lock)."""
    try:
        ds = [d for d in glob.glob(os.path.join(BUILD, '*')) if os.path.isdir(d) and os.path.basename(d) != 'engine' and not os.path.basename(d).startswith('head-include-')]
        used = lambda d: os.path.getmtime(os.path.join(d, '.used')) if os.path.exists(os.path.join(d, '.used')) else os.path.getmtime(d)
        ds.sort(key=used, reverse=True)
        for d in ds[keep:]:
            if time.time() - used(d) < min_age: continue
            try:
                with open(os.path.join(d, '.lock'), 'a') as lk:
                    fcntl.flock(lk, fcntl.LOCK_EX | fcntl.LOCK_NB)
                    shutil.rmtree(d, ignore_errors=True)
            except OSError:
                continue
    except Exception:
        pass

def build(names, flavour='n'):
    """Builds the binaries `names` for the current tree; returns {name: path}.  Serialised per tree by flock."""
    os.makedirs(tree_dir(), exist_ok=True)
    open(os.path.join(tree_dir(), '.used'), 'w').write(str(time.time()))
    with open(os.path.join(tree_dir(), '.lock'), 'w') as lk:
        fcntl.flock(lk, fcntl.LOCK_EX)
        os.makedirs(tree_dir(), exist_ok=True)
        open(os.path.join(tree_dir(), '.used'), 'w').write(str(time.time()))
        ensure_gen()
        objs = []
        for n in names:
            for o in BINARIES[n]['objs']: objs.append(o)
        # dedupe by output path
        todo = {}
        for o in objs:
            out, _ = obj_path(o, flavour)
            if not os.path.exists(out): todo[out] = o
        if todo:
            log('building %d object(s) for tree %s flavour %s' % (len(todo), tree_hash(), flavour))
            with cf.ThreadPoolExecutor(max_workers=JOBS) as ex:
                futs = [ex.submit(compile_obj, o, flavour) for o in todo.values()]
                err = None
                for f in futs:
                    try: f.result()
                    except BuildError as e:
                        if err is None or (e.in_library and not err.in_library): err = e
                if err: raise err
        res = {}
        for n in names:
            outs = [obj_path(o, flavour)[0] for o in BINARIES[n]['objs']]
            key = sha(*outs)[:10]
            exe = os.path.join(tree_dir(), flavour, '%s.%s' % (n, key))
            if not os.path.exists(exe):
                fl = FLAVOURS[flavour]
                cmd = [fl['cxx']] + outs + fl['ldflags'] + BINARIES[n]['libs'] + ['-o', exe + '.tmp']
                p = subprocess.run(cmd, stdout=subprocess.PIPE, stderr=subprocess.STDOUT, text=True)
                if p.returncode != 0:
                    logp = exe + '.link.log'
                    open(logp, 'w').write(' '.join(cmd) + '\n' + p.stdout)
                    raise BuildError(logp, False, 'link failed: ' + p.stdout[:300])
                os.replace(exe + '.tmp', exe)
            res[n] = exe
        prune_builds()
        return res

# ---------------------------------------------------------------------------------------------------------
# known findings
def known_findings():
    out = []
    p = os.path.join(VERIF, 'known_findings.txt')
    if os.path.exists(p):
        for line in open(p):
            m = re.match(r'known:\s+property=(\S+)\s+key=(\S+)\s+(.*)', line.strip())
            if m: out.append(dict(property=m.group(1), key=m.group(2), text=m.group(3)))
    return out

# ---------------------------------------------------------------------------------------------------------
class Run:
    """One invocation of a check: collects step results, failures, evidence."""
    def __init__(self, prop, tier):
        self.prop = prop; self.tier = tier; self.t0 = time.time()
        self.evaluations = 0; self.nontrivial = 0; self.samples = []; self.classes = {}; self.rules = {}; self.per_check = {}
        self.notes = []; self.fails = []; self.exhaustive = None; self.assumptions = []; self.known_hits = []
    def merge_engine_result(self, path, binary, flavour='n'):
        r = json.load(open(path))
        self.evaluations += r['evaluations']; self.nontrivial += r['distinct_nontrivial']
        pre = {'n': '', 's': 'san:', 'c': 'clang:'}.get(flavour, flavour + ':')
        for k, v in r.get('classes', {}).items(): self.classes[pre + k] = self.classes.get(pre + k, 0) + v
        for k, v in r.get('rules', {}).items(): self.rules[k] = v
        for k, v in r.get('per_check', {}).items(): self.per_check[pre + k] = v
        self.samples += r.get('samples', [])[:40]
        self.notes += r.get('notes', [])
        if self.exhaustive is None: self.exhaustive = r.get('exhaustive', False)
        else: self.exhaustive = self.exhaustive and r.get('exhaustive', False)
        for h in r.get('harness_errors', []):
            self.fails.append(dict(kind='harness', binary=binary, flavour=flavour, key='harness/' + h[:80], msg=h))
        for f in r.get('fails', []):
            self.fails.append(dict(kind='engine', binary=binary, flavour=flavour, check=f['check'], case=f['case'], msg=f['msg'], key='%s/%s' % (f['check'], f['case'])))

def run_engine(run, binary, exe, filters, flavour='n', scale=None, timeout=None, extra_env=None, tag=''):
    out = os.path.join(tree_dir(), 'result.%s.%s.%s.%d%s.json' % (run.prop, binary, flavour, os.getpid(), tag))
    env = dict(os.environ, VERIF_SEED=str(SEED), VERIF_OUT=out)
    if scale is not None: env['VERIF_SCALE'] = str(scale)
    if flavour == 's':
        env['ASAN_OPTIONS'] = 'detect_leaks=0:abort_on_error=0:exitcode=97:allocator_may_return_null=1'
        env['UBSAN_OPTIONS'] = 'print_stacktrace=1:halt_on_error=1:exitcode=98'
    if extra_env: env.update(extra_env)
    cmd = [exe, 'run', run.tier] + filters
    log('run', os.path.basename(exe), run.tier, ' '.join(filters), '[%s]' % flavour)
    t_run = time.time()
    p = subprocess.run(cmd, stdout=subprocess.PIPE, stderr=subprocess.PIPE, text=True, errors='replace', env=env, timeout=timeout)
    log('  %s [%s] finished in %.1fs' % (binary, flavour, time.time() - t_run))
    sys.stderr.write(''.join(l + '\n' for l in p.stderr.splitlines() if l.startswith('[engine]')))
    if os.path.exists(out):
        n0 = len(run.fails)
        run.merge_engine_result(out, binary, flavour)
        os.remove(out)
        keep = ('VERIF_SEED', 'VERIF_SCALE', 'VERIF_SHARD', 'VERIF_SKIP', 'VERIF_MAXN', 'VERIF_FACTORS')
        for f in run.fails[n0:]:
            if f['kind'] == 'engine': f['rerun'] = dict(tier=run.tier, filters=list(filters), env={k: env[k] for k in keep if k in env})
    if p.returncode not in (0, 1) or not p.stdout.strip() and p.returncode == 1:
        # crash / sanitizer abort: attribute to the current case
        m = re.search(r'^CRASH sub=(\S+) case=(.*)$', p.stdout, re.M)
        tail = '\n'.join((p.stderr or '').splitlines()[-40:])
        if m:
            run.fails.append(dict(kind='engine', binary=binary, flavour=flavour, check=m.group(1), case=m.group(2), key='%s/%s' % (m.group(1), m.group(2)),
                                  msg='process died (exit %s) while running this case: %s' % (p.returncode, summarise_crash(p.stderr)), stderr_tail=tail))
        else:
            run.fails.append(dict(kind='harness', binary=binary, flavour=flavour, key='crash/' + binary, msg='engine exited with %s without a current case' % p.returncode, stderr_tail=tail))
    return p

def summarise_crash(stderr):
    for line in (stderr or '').splitlines():
        if 'runtime error:' in line or 'ERROR: AddressSanitizer' in line or 'Assertion' in line or 'terminate called' in line or 'what():' in line:
            return line.strip()[:400]
    return 'no sanitizer message'

def replay_engine(exe, f, flavour='n'):
    env = dict(os.environ)
    if flavour == 's':
        env['ASAN_OPTIONS'] = 'detect_leaks=0:exitcode=97'; env['UBSAN_OPTIONS'] = 'halt_on_error=1:exitcode=98'
    p = subprocess.run([exe, 'replay', f['check'], f['case']], stdout=subprocess.PIPE, stderr=subprocess.PIPE, text=True, errors='replace', env=env)
    return p.returncode != 0, (p.stdout.strip().splitlines() or [''])[-1] if p.returncode in (0, 1) else 'died with exit %s: %s' % (p.returncode, summarise_crash(p.stderr))

def replay_engine_sequence(exe, f, flavour='n'):
    """Re-runs the deterministic engine run in which `f` was found (same seed, filters, scale, shard) and reports whether the very same case fails again.
    For failures that do not reproduce from the single case: state carried between calls inside the library (a cache, a function-local static)."""
    rr = f.get('rerun')
    if not rr: return False
    out = os.path.join(tree_dir(), 'rerun.%d.%s.json' % (os.getpid(), sha(f['check'], f['case'])[:8]))
    env = dict(os.environ, VERIF_OUT=out); env.update(rr['env'])
    if flavour == 's':
        env['ASAN_OPTIONS'] = 'detect_leaks=0:abort_on_error=0:exitcode=97:allocator_may_return_null=1'; env['UBSAN_OPTIONS'] = 'print_stacktrace=1:halt_on_error=1:exitcode=98'
    subprocess.run([exe, 'run', rr['tier']] + rr['filters'], stdout=subprocess.PIPE, stderr=subprocess.PIPE, env=env)
    hit = False
    if os.path.exists(out):
        try: hit = any(x['check'] == f['check'] and x['case'] == f['case'] for x in json.load(open(out)).get('fails', []))
        except Exception: hit = False
        os.remove(out)
    return hit

def out_root():
    """evidence/ and replays/ live in /verif for the real tree, next to the build output for scratch trees (mutation audit)"""
    return VERIF if os.path.realpath(REPO) == '/repo' else tree_dir()

def write_replay(prop, f):
    d = os.path.join(out_root(), 'replays', prop)
    os.makedirs(d, exist_ok=True)
    body = dict(f); body['property'] = prop; body['tree'] = tree_hash(); body['seed'] = SEED
    name = sha(json.dumps({k: body.get(k) for k in ('kind', 'binary', 'check', 'case', 'key')}, sort_keys=True))[:16] + '.json'
    p = os.path.join(d, name)
    json.dump(body, open(p, 'w'), indent=1, ensure_ascii=False)
    return p

def finish(run, level='exploration', extra_cov=None):
    """Replays failures, prints VIOLATION / KNOWN-FINDING lines, writes the evidence file, returns the exit code."""
    known = [k for k in known_findings() if k['property'] == run.prop]
    violations = 0; harness_errors = 0
    exes = {}; seq_budget = [3]
    printed = set()
    for f in run.fails:
        if f['kind'] == 'harness':
            print('ERROR harness: %s' % f['msg']); sys.stderr.write(f.get('stderr_tail', '') + '\n'); harness_errors += 1; continue
        kf = [k for k in known if f.get('key', '').startswith(k['key']) or k['key'] == f.get('known_key')]
        if kf:
            line = 'KNOWN-FINDING: property=%s %s' % (run.prop, kf[0]['text'])
            if line not in printed: print(line); printed.add(line)
            run.known_hits.append(kf[0]['key']); continue
        if f['kind'] == 'engine':
            try:
                key = (f['binary'], f['flavour'])
                if key not in exes: exes[key] = build([f['binary']], f['flavour'])[f['binary']]
                reps = [replay_engine(exes[key], f, f['flavour']) for _ in range(3)]
            except BuildError as e:
                reps = [(True, 'rebuild failed')] * 3
            n = sum(1 for r in reps if r[0])
            f['replayed'] = '%d/3' % n
            if n < 3:
                # not a function of the case alone.  Before discarding it as flaky: the engine run is deterministic, so a failure caused by state that the library
                # carries from earlier calls comes back when the same run is repeated (checked for at most 3 such failures per check run)
                seq = 0
                if f.get('rerun') and seq_budget[0] > 0:
                    seq_budget[0] -= 1
                    seq = sum(1 for _ in range(2) if replay_engine_sequence(exes[key], f, f['flavour']))
                if seq == 2:
                    f['kind'] = 'engine-seq'; f['replayed'] = '%d/3 as a single case, 2/2 within the deterministic run it was found in' % n
                    f['msg'] += '  [does not fail as a single case in a fresh process: the outcome depends on earlier calls in the same process - state carried inside the library]'
                else:
                    run.notes.append('failure did not reproduce 3/3 outside the PBT library (%d/3) and is not reported: %s %s' % (n, f['check'], f['msg']))
                    print('NOTE flaky failure not reported (%d/3): %s %s' % (n, f['check'], f['msg']))
                    continue
        path = write_replay(run.prop, f)
        print('VIOLATION property=%s replay=%s' % (run.prop, path))
        print('  ' + (f.get('check', f.get('kind', '')) + ': ' + f.get('msg', ''))[:1500])
        violations += 1
    wall = time.time() - run.t0
    cov = dict(evaluations=run.evaluations, distinct_nontrivial=run.nontrivial,
               rule='; '.join('%s: %s' % kv for kv in sorted(run.rules.items())) or 'see per_check',
               samples=run.samples[:60], per_check=run.per_check, classes=run.classes, notes=run.notes[:50], tree=tree_hash())
    if run.exhaustive: cov['exhaustive'] = True
    if run.known_hits: cov['known_findings_reproduced'] = sorted(set(run.known_hits))
    if extra_cov: cov.update(extra_cov)
    evd = dict(property_id=run.prop, tier=run.tier, seed=SEED, level=level, coverage=cov, assumptions=run.assumptions, wall_s=round(wall, 2), violations=violations)
    os.makedirs(os.path.join(out_root(), 'evidence'), exist_ok=True)
    json.dump(evd, open(os.path.join(out_root(), 'evidence', run.prop + '.json'), 'w'), indent=1, ensure_ascii=False)
    log('%s %s: %d evaluations, %d distinct non-trivial, %d violation(s), %.1fs' % (run.prop, run.tier, run.evaluations, run.nontrivial, violations, wall))
    if violations: return 1
    if harness_errors: return 2
    if run.evaluations < 1 or run.nontrivial < 2:
        print('ERROR generator: nothing non-trivial was explored'); return 2
    return 0

def compiles_against_head(logpath):
    """True if the failing compile command of `logpath` succeeds when /repo's include/ is replaced by the committed HEAD version
    (i.e. the harness source itself is fine and the uncommitted change to the working tree is what broke the build)."""
    try:
        if subprocess.run(['git', '-C', REPO, 'rev-parse', '--is-inside-work-tree'], stdout=subprocess.PIPE, stderr=subprocess.PIPE).returncode != 0: return False
        if subprocess.run(['git', '-C', REPO, 'diff', '--quiet', 'HEAD', '--', 'include']).returncode == 0: return False   # working tree == HEAD
        cmd = open(logpath).readline().split()
        ref = os.path.join(BUILD, 'head-include-%d' % os.getpid()); shutil.rmtree(ref, ignore_errors=True); os.makedirs(ref)
        p1 = subprocess.Popen(['git', '-C', REPO, 'archive', 'HEAD', 'include'], stdout=subprocess.PIPE)
        subprocess.check_call(['tar', '-x', '-C', ref], stdin=p1.stdout); p1.wait()
        inc = os.path.join(REPO, 'include')
        cmd = [os.path.join(ref, 'include') if c == inc else c for c in cmd]
        if '-o' in cmd: cmd[cmd.index('-o') + 1] = os.path.join(ref, 'probe.o')
        # the generated includes describe the working tree (same enumerators / quantity lists unless the change touched them)
        ok = subprocess.run(cmd, stdout=subprocess.PIPE, stderr=subprocess.PIPE).returncode == 0
        shutil.rmtree(ref, ignore_errors=True)
        return ok
    except Exception:
        return False

def build_or_violation(run, names, flavour='n'):
    """Build; an instantiation failure *inside the library's headers* is a violation (DESIGN 3).  A failure located in the harness is a violation
    only if the same harness source compiles against the committed HEAD of /repo (then the uncommitted change removed or broke a public member
    that the property quantifies over); anything else is an ERROR."""
    try:
        return build(names, flavour)
    except BuildError as e:
        # names in namespace PhQ::Internal (the tables read by the introspection dump) are implementation details: if the harness no longer compiles because
        # one of them was renamed or reshaped, no property is known to be broken - that is an ERROR of the harness, not a VIOLATION
        internal_detail = 'Internal' in e.first_error
        if not e.in_library and not internal_detail and compiles_against_head(e.logpath):
            run.fails.append(dict(kind='build', key='build/' + e.first_error[:200], log=open(e.logpath).read()[-6000:], binaries=names, flavour=flavour,
                                  msg='the harness for this property compiles against the committed library but not against the working tree: a public member it exercises no longer compiles as before: ' + e.first_error))
            return None
        if e.in_library:
            run.fails.append(dict(kind='build', key='build/' + e.first_error[:200], log=open(e.logpath).read()[-6000:], binaries=names, flavour=flavour,
                                  msg='the library does not instantiate for a type/member this property quantifies over: ' + e.first_error))
            return None
        print('ERROR build: %s (log %s)' % (e.first_error, e.logpath))
        raise SystemExit(2)

# ---------------------------------------------------------------------------------------------------------
# symx steps
def intro_path(intro_exe=None):
    """The table dump of the current tree; keyed by the introspection binary (its name carries the hash of its source and flags), so that a changed
    dump format never meets a stale file.  Without an argument: the most recent dump of the tree."""
    if intro_exe: return os.path.join(tree_dir(), 'introspect.%s.json' % os.path.basename(intro_exe).split('.')[-1])
    c = sorted(glob.glob(os.path.join(tree_dir(), 'introspect.*.json')), key=os.path.getmtime)
    return c[-1] if c else os.path.join(tree_dir(), 'introspect.none.json')

def run_symx(run, prop, intro_exe):
    intro = intro_path(intro_exe)
    if not os.path.exists(intro):
        p = subprocess.run([intro_exe], stdout=subprocess.PIPE, stderr=subprocess.PIPE)
        if p.returncode != 0:
            run.fails.append(dict(kind='introspect', key='introspect/died', msg='introspection of the library tables died with exit %s: %s' % (p.returncode, p.stderr.decode(errors='replace')[-500:])))
            return
        open(intro + '.tmp', 'wb').write(p.stdout); os.replace(intro + '.tmp', intro)
    out = os.path.join(tree_dir(), 'symx.%s.%d.json' % (prop, os.getpid()))
    p = subprocess.run([sys.executable, os.path.join(VERIF, 'tools', 'symx.py'), 'check', prop, intro, out], stdout=subprocess.PIPE, stderr=subprocess.STDOUT, text=True)
    if p.returncode != 0:
        run.fails.append(dict(kind='harness', key='symx', msg='symx failed: ' + p.stdout[-800:])); return
    r = json.load(open(out)); os.remove(out)
    run.evaluations += r['evaluations']; run.nontrivial += r['distinct_nontrivial']
    for k, v in r['classes'].items(): run.classes['symx:' + k] = v
    run.samples += r['samples'][:25]; run.notes += r['notes'][:30]
    run.per_check['symx.' + prop] = dict(evaluations=r['evaluations'], distinct_nontrivial=r['distinct_nontrivial'], exhaustive=True)
    for v in r['violations']:
        run.fails.append(dict(kind='symx', symx_property=prop, key=v['key'], msg=v['what'], detail=v))

class FactorsError(Exception):
    pass

def factors_file(intro_exe):
    try:
        return _factors_file(intro_exe)
    except (subprocess.CalledProcessError, RuntimeError, OSError, ValueError) as e:
        raise FactorsError('the table dump of this tree could not be turned into conversion factors: %s' % str(e)[:300])

def _factors_file(intro_exe):
    intro = intro_path(intro_exe)
    if not os.path.exists(intro):
        p = subprocess.run([intro_exe], stdout=subprocess.PIPE)
        if p.returncode != 0: raise RuntimeError('introspect died')
        open(intro + '.tmp', 'wb').write(p.stdout); os.replace(intro + '.tmp', intro)
    fa = os.path.join(tree_dir(), 'factors.%s.%s.txt' % (os.path.basename(intro_exe).split('.')[-1], sha(open(os.path.join(VERIF, 'tools', 'symx.py'), 'rb').read())[:8]))
    if not os.path.exists(fa) or not os.path.exists(fa + '.systems'):
        subprocess.check_call([sys.executable, os.path.join(VERIF, 'tools', 'symx.py'), 'factors', intro, fa])
    return fa

# ---------------------------------------------------------------------------------------------------------
import checks  # noqa: E402  (per-property plans; registers binaries)

def replay(path):
    f = json.load(open(path))
    prop = f['property']
    if f['kind'] == 'engine':
        exe = build([f['binary']], f.get('flavour', 'n'))[f['binary']]
        res = [replay_engine(exe, f, f.get('flavour', 'n')) for _ in range(3)]
        n = sum(1 for r in res if r[0])
        print('replay %s: fails %d/3: %s' % (f['check'], n, res[0][1]))
        if n == 3:
            print('VIOLATION property=%s replay=%s' % (prop, path)); return 1
        return 0
    if f['kind'] == 'engine-seq':
        exe = build([f['binary']], f.get('flavour', 'n'))[f['binary']]
        if f['rerun']['env'].get('VERIF_FACTORS'):
            f['rerun']['env']['VERIF_FACTORS'] = factors_file(build(['introspect'])['introspect'])
        n = sum(1 for _ in range(2) if replay_engine_sequence(exe, f, f.get('flavour', 'n')))
        print('replay %s within its deterministic run: fails %d/2' % (f['check'], n))
        if n == 2:
            print('VIOLATION property=%s replay=%s' % (prop, path)); return 1
        return 0
    if f['kind'] == 'symx':
        run = Run(prop, 'quick')
        exes = build(['introspect'])
        run_symx(run, f['symx_property'], exes['introspect'])
        hit = [x for x in run.fails if x.get('key') == f['key']]
        if hit:
            print('replay: still fails: ' + hit[0]['msg']); print('VIOLATION property=%s replay=%s' % (prop, path)); return 1
        print('replay: passes now'); return 0
    if f['kind'] == 'build':
        try:
            build(f['binaries'], f.get('flavour', 'n'))
        except BuildError as e:
            print('replay: still does not build: ' + e.first_error); print('VIOLATION property=%s replay=%s' % (prop, path)); return 1
        print('replay: builds now'); return 0
    return checks.replay_other(f, path)

def main(argv):
    if len(argv) >= 2 and argv[0] == '--replay':
        return replay(argv[1])
    if argv and argv[0] == '--build':
        fl = argv[1] if len(argv) > 1 else 'n'
        names = argv[2:] or ([n for n in ('units', 'qty', 'rel')] if fl == 'c' else [n for n in BINARIES if n.startswith('fuzz') == (fl == 'f') and not (fl == 's' and n == 'introspect')])
        t0 = time.time()
        try:
            build(names, fl)
        except BuildError as e:
            print('ERROR build: %s (log %s)' % (e.first_error, e.logpath)); return 2
        log('build of %d binaries done in %.0fs' % (len(names), time.time() - t0)); return 0
    if len(argv) != 2 or argv[0] not in checks.PLANS or argv[1] not in ('quick', 'thorough'):
        print('usage: check <C01..C20> <quick|thorough> | --replay <file> | --build [flavour] [binaries]'); return 2
    run = Run(argv[0], argv[1])
    try:
        level = checks.PLANS[argv[0]](run) or 'exploration'
    except FactorsError as e:
        # whatever the plan found before this point is still reported (a violation takes precedence over the harness error)
        run.fails.append(dict(kind='harness', key='factors', msg=str(e))); level = 'exploration'
    return finish(run, level if isinstance(level, str) else 'exploration')
