#!/bin/bash
# usage: tools/seed_verify.sh <seed-id> <property> <dir-with-patch.diff,demo.cpp,notes.md> [--skip-suite]
# Confirms a seeded change independently in a scratch worktree of /repo (outside /repo and /verif):
#   1. the patch applies to HEAD, the library + the shipped test-suite build and the suite passes with it;
#   2. the demonstration fails with the patch and passes without it.
# Then copies the files to /verif/seeded/<seed-id>/ and writes meta.json.  The scratch worktree is removed.
set -u
ID="$1"; PROP="$2"; SRC="$(realpath "$3")"; SKIP="${4:-}"
V="$(cd "$(dirname "$0")/.." && pwd)"
W=$(mktemp -d /tmp/vfseed.XXXXXX); rmdir "$W"
git -C /repo worktree add --detach "$W" HEAD >/dev/null 2>&1 || { echo "cannot create worktree"; exit 3; }
cleanup() { git -C /repo worktree remove --force "$W" >/dev/null 2>&1; rm -rf "$W"; }
trap cleanup EXIT
cd "$W"
# a demonstration that needs several files or special flags brings its own seed/build.sh (run from the worktree root; exit code = verdict)
run_demo() {  # run_demo <tag>
  if [ -f "$SRC/build.sh" ]; then
    rm -rf "$W/seed"; mkdir -p "$W/seed"; cp "$SRC"/*.cpp "$SRC"/build.sh "$W/seed/" 2>/dev/null
    ( cd "$W" && sh seed/build.sh ) > "$W/demo_$1.out" 2>&1; echo $? > "$W/demo_$1.rc"
  else
    g++ -std=c++17 -O1 -w -I include "$SRC/demo.cpp" -o "$W/demo_$1" 2> "$W/demo_$1.log" || { echo "demo does not compile ($1)"; head "$W/demo_$1.log"; echo 99 > "$W/demo_$1.rc"; return; }
    "$W/demo_$1" > "$W/demo_$1.out" 2>&1; echo $? > "$W/demo_$1.rc"
  fi
}
run_demo clean; RC_CLEAN=$(cat "$W/demo_clean.rc")
[ "$RC_CLEAN" = 99 ] && exit 3
git apply "$SRC/patch.diff" || { echo "patch does not apply"; exit 3; }
FILES=$(git diff --name-only | tr '\n' ' ')
run_demo patched; RC_PATCHED=$(cat "$W/demo_patched.rc")
rm -rf "$W/seed"
SUITE="skipped"
if [ "$SKIP" != "--skip-suite" ]; then
  cmake -G Ninja -S . -B _build -DPHYSICAL_QUANTITIES_PHQ_TEST=ON -DCMAKE_BUILD_TYPE=RelWithDebInfo -DCMAKE_CXX_FLAGS=-Wno-error > /dev/null 2>&1
  if cmake --build _build -j12 > "$W/build.log" 2>&1; then
    ctest --test-dir _build -j8 --timeout 900 > "$W/ctest.log" 2>&1
    if grep -q "100% tests passed" "$W/ctest.log"; then SUITE="passed ($(grep -o 'out of [0-9]*' "$W/ctest.log"))"
    else
      # timing tests are flaky under load: rerun the failures once, alone
      ctest --test-dir _build --rerun-failed --timeout 900 > "$W/ctest2.log" 2>&1
      if grep -q "100% tests passed" "$W/ctest2.log"; then SUITE="passed after rerunning timing tests ($(grep -o 'out of [0-9]*' "$W/ctest.log"))"
      else
        # the *.Performance tests compare wall-clock timings and fail under machine load: run them serially once more; only they may be excused
        NONPERF=$(grep -E '^\s+[0-9]+ - ' "$W/ctest2.log" | grep -v '\.Performance' | wc -l)
        ctest --test-dir _build --rerun-failed -j1 --timeout 900 > "$W/ctest3.log" 2>&1
        if grep -q "100% tests passed" "$W/ctest3.log"; then SUITE="passed after rerunning timing tests serially ($(grep -o 'out of [0-9]*' "$W/ctest.log"))"
        elif [ "$NONPERF" = 0 ]; then SUITE="passed except wall-clock timing tests under machine load: $(grep -E '^\s+[0-9]+ - ' "$W/ctest3.log" | tr '\n' ' ' | cut -c1-200) ($(grep -o 'out of [0-9]*' "$W/ctest.log"))"
        else SUITE="FAILED: $(grep -E '^\s+[0-9]+ - ' "$W/ctest3.log" | tr '\n' ' ' | cut -c1-300)"; fi
      fi
    fi
  else SUITE="BUILD FAILED: $(grep -m1 'error' "$W/build.log" | cut -c1-200)"; fi
fi
echo "seed $ID ($PROP): demo on HEAD exit $RC_CLEAN, with patch exit $RC_PATCHED, suite with patch: $SUITE, files: $FILES"
OK=0; [ "$RC_CLEAN" = 0 ] && [ "$RC_PATCHED" != 0 ] && case "$SUITE" in passed*|skipped) OK=1;; esac
if [ "$OK" = 1 ]; then
  mkdir -p "$V/seeded/$ID"; cp "$SRC/patch.diff" "$SRC"/*.cpp "$V/seeded/$ID/"; [ -f "$SRC/notes.md" ] && cp "$SRC/notes.md" "$V/seeded/$ID/"; [ -f "$SRC/build.sh" ] && cp "$SRC/build.sh" "$V/seeded/$ID/"
  python3 - "$V/seeded/$ID/meta.json" "$ID" "$PROP" "$FILES" "$RC_CLEAN" "$RC_PATCHED" "$SUITE" "$(head -c 600 "$W/demo_patched.out")" <<'PY'
import json, sys
p, sid, prop, files, rc0, rc1, suite, out = sys.argv[1:9]
try: old = json.load(open(p))
except Exception: old = {}
old.update(dict(seed=sid, breaks_property=prop, files_changed=files.split(), confirmed=dict(demo_exit_on_HEAD=int(rc0), demo_exit_with_patch=int(rc1), shipped_suite_with_patch=suite,
           how='tools/seed_verify.sh: scratch worktree of /repo HEAD; git apply patch.diff; cmake --build + ctest; g++ -std=c++17 -O1 -I include demo.cpp'), demo_output_with_patch=out))
json.dump(old, open(p, 'w'), indent=1)
PY
  echo "kept as $V/seeded/$ID"
  exit 0
fi
echo "NOT kept"; exit 1
