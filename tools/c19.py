#!/usr/bin/env python3
"""C19: quantities work during static initialisation.

Generates small multi-TU programs (Hypothesis strategies, seeded) whose namespace-scope objects exercise every library facility that relies
on a namespace-scope table; builds them with g++ and clang++ at -O0 and -O2 and in both link orders; every value computed before main() is
compared with the same expression evaluated inside main().  `mark(i)` is written unbuffered before each probe, so a death before main() is
attributed to a probe and thereby to a facility.

usage: c19.py <repo> <workdir> <scan.json> <introspect.json> <tier> <seed> <result.json>      |   c19.py --replay <program-dir> <repo>
"""
import sys, os, json, subprocess, shutil, time, hashlib, concurrent.futures as cf

CONFIGS = [('g++', '-O0'), ('g++', '-O2'), ('clang++', '-O0'), ('clang++', '-O2')]

COMMON_HPP = r'''
#pragma once
#include <cstdio>
#include <cstdlib>
#include <cstring>
#include <sstream>
#include <string>
#include <vector>
#include <unistd.h>
// harness state lives in function-local statics: safe to use from any dynamic initialiser
inline std::vector<std::string>& vf_results() { static std::vector<std::string> r(8192); return r; }
inline int vf_mark(int i) { char b[32]; int n = std::snprintf(b, sizeof b, "M%d\n", i); ssize_t w = write(2, b, (size_t)n); (void)w; return i; }
inline std::string vf_rec(int i, const std::string& v) { vf_results()[(size_t)i] = v; return v; }
template <class T> inline std::string vf_hex(T v) { char b[64]; std::snprintf(b, sizeof b, "%La", (long double)v); return b; }
template <class T> inline std::string vf_str(const T& v) { std::ostringstream s; s << v; return s.str(); }
inline int& vf_bad() { static int b = 0; return b; }
inline void vf_check(int i, const std::string& now) {
  if (vf_results()[(size_t)i] != now) { std::printf("MISMATCH probe %d: before main \"%s\", inside main \"%s\"\n", i, vf_results()[(size_t)i].c_str(), now.c_str()); vf_bad()++; }
}
'''

def cxx_float(v, nt):
    s = repr(float(v))
    if 'e' not in s and '.' not in s: s += '.0'
    return s + {'float': 'F', 'double': '', 'long double': 'L'}[nt]

class Probe:
    """one namespace-scope object + its re-evaluation inside main()"""
    def __init__(self, facility, dispatch, headers, decl, expr, text):
        self.facility = facility; self.dispatch = dispatch; self.headers = headers; self.decl = decl; self.expr = expr; self.text = text

def make_strategies(scan, intro):
    import hypothesis.strategies as st
    units = {e['type']: e for e in intro['enumerations'] if e['kind'] == 'unit'}
    quantities = scan['quantities']
    dimensional = sorted(q for q, d in quantities.items() if d['unit'])
    shape_of = {'DimensionalScalar': 1, 'DimensionalPlanarVector': 2, 'DimensionalVector': 3, 'DimensionalSymmetricDyad': 6, 'DimensionalDyad': 9}
    valtype = {1: None, 2: 'PlanarVector', 3: 'Vector', 6: 'SymmetricDyad', 9: 'Dyad'}
    systems = [e for e in intro['enumerations'] if e['kind'] == 'unit_system'][0]['enumerators']
    nts = ['float', 'double', 'long double']
    vals = st.sampled_from([1.0, 2.0, 0.5, 1.25, 3.0, 10.0, 0.125, 7.0, 100.0, 1.5])

    @st.composite
    def quantity(draw):
        q = draw(st.sampled_from(dimensional)); ut = quantities[q]['unit']; n = shape_of[quantities[q]['base']]
        nt = draw(st.sampled_from(nts)); u = draw(st.sampled_from(units[ut]['enumerators']))
        comps = [draw(vals) for _ in range(n)]
        std = [e for e in units[ut]['enumerators'] if e['value'] == units[ut]['standard']][0]
        return dict(q=q, ut=ut, n=n, nt=nt, unit=u, std=std, comps=comps)
    def value_expr(Q):
        c = ', '.join(cxx_float(v, Q['nt']) for v in Q['comps'])
        if Q['n'] == 1: return c
        return 'PhQ::%s<%s>(%s)' % (valtype[Q['n']], Q['nt'], c)
    def hexv(Q, obj):
        if Q['n'] == 1: return 'vf_hex(%s)' % obj
        return '(%s).Print()' % obj

    @st.composite
    def probe(draw):
        kind = draw(st.sampled_from(['construct', 'construct', 'value_unit', 'print', 'print_unit', 'json', 'convert', 'static', 'abbrev', 'parse', 'consistent', 'related', 'stream', 'compare', 'dimensions', 'model', 'relation', 'container']))
        Q = draw(quantity()); ut = Q['ut']; U = 'PhQ::Unit::%s' % ut; u = '%s::%s' % (U, Q['unit']['name']); ustd = '%s::%s' % (U, Q['std']['name'])
        T = 'PhQ::%s<%s>' % (Q['q'], Q['nt']); hq = ['PhQ/%s.hpp' % Q['q']]
        nonstd = Q['unit']['value'] != Q['std']['value']
        ctor = '%s(%s, %s)' % (T, value_expr(Q), u)
        ctor_std = '%s(%s, %s)' % (T, value_expr(Q), ustd)
        if kind == 'construct':
            return Probe('construct-in-unit', nonstd, hq, 'const %s OBJ{%s, %s};' % (T, value_expr(Q), u), hexv(Q, 'OBJ.Value()') + '|' + hexv(Q, ctor + '.Value()'), '%s from %s' % (T, Q['unit']['name']))
        if kind == 'value_unit':
            return Probe('value-in-unit', nonstd, hq, 'const %s OBJ{%s, %s};' % (T, value_expr(Q), ustd), hexv(Q, 'OBJ.Value(%s)' % u) + '|' + hexv(Q, ctor_std + '.Value(%s)' % u), '%s.Value(%s)' % (T, Q['unit']['name']))
        if kind == 'print':
            return Probe('print (abbreviation table)', False, hq, 'const %s OBJ{%s, %s};' % (T, value_expr(Q), ustd), 'OBJ.Print()|' + ctor_std + '.Print()', '%s.Print()' % T)
        if kind == 'print_unit':
            return Probe('print-in-unit', nonstd, hq, 'const %s OBJ{%s, %s};' % (T, value_expr(Q), ustd), 'OBJ.Print(%s)|%s.Print(%s)' % (u, ctor_std, u), '%s.Print(%s)' % (T, Q['unit']['name']))
        if kind == 'json':
            form = draw(st.sampled_from(['JSON', 'XML', 'YAML']))
            return Probe('serialise-in-unit', nonstd, hq, 'const %s OBJ{%s, %s};' % (T, value_expr(Q), ustd), 'OBJ.%s(%s)|%s.%s(%s)' % (form, u, ctor_std, form, u), '%s.%s(%s)' % (T, form, Q['unit']['name']))
        if kind == 'convert':
            x = cxx_float(Q['comps'][0], Q['nt'])
            return Probe('free Convert', nonstd, ['PhQ/Unit/%s.hpp' % ut], 'const %s OBJ{PhQ::Convert<%s, %s>(%s, %s, %s)};' % (Q['nt'], U, Q['nt'], x, u, ustd), 'vf_hex(OBJ)|vf_hex(PhQ::Convert<%s, %s>(%s, %s, %s))' % (U, Q['nt'], x, u, ustd), 'Convert<%s>(%s -> standard)' % (ut, Q['unit']['name']))
        if kind == 'container':
            x = ', '.join(cxx_float(v, Q['nt']) for v in (Q['comps'] * 3)[:3])
            return Probe('free Convert on std::vector', nonstd, ['PhQ/Unit/%s.hpp' % ut], 'const std::vector<%s> OBJ{PhQ::Convert<%s, %s>(std::vector<%s>{%s}, %s, %s)};' % (Q['nt'], U, Q['nt'], Q['nt'], x, ustd, u),
                         'vf_hex(OBJ.at(2))|vf_hex(PhQ::Convert<%s, %s>(std::vector<%s>{%s}, %s, %s).at(2))' % (U, Q['nt'], Q['nt'], x, ustd, u), 'Convert<%s>(std::vector, standard -> %s)' % (ut, Q['unit']['name']))
        if kind == 'static':
            return Probe('compile-time conversion (no table)', False, hq, 'const %s OBJ{%s::Create<%s>(%s)};' % (T, T, u, value_expr(Q)), hexv(Q, 'OBJ.StaticValue<%s>()' % u) + '|' + hexv(Q, '%s::Create<%s>(%s).StaticValue<%s>()' % (T, u, value_expr(Q), u)), '%s::Create<%s>' % (T, Q['unit']['name']))
        if kind == 'abbrev':
            return Probe('abbreviation table', False, ['PhQ/Unit/%s.hpp' % ut], 'const std::string OBJ{PhQ::Abbreviation(%s)};' % u, 'OBJ|std::string(PhQ::Abbreviation(%s))' % u, 'Abbreviation(%s::%s)' % (ut, Q['unit']['name']))
        if kind == 'parse':
            sp = draw(st.sampled_from(units[ut]['spellings']))[0]
            lit = json.dumps(sp, ensure_ascii=False)
            return Probe('spelling table', False, ['PhQ/Unit/%s.hpp' % ut], 'const int OBJ{static_cast<int>(PhQ::ParseEnumeration<%s>(%s).value_or(static_cast<%s>(-1)))};' % (U, lit, U),
                         'std::to_string(OBJ)|std::to_string(static_cast<int>(PhQ::ParseEnumeration<%s>(%s).value_or(static_cast<%s>(-1))))' % (U, lit, U), 'ParseEnumeration<%s>(%s)' % (ut, lit))
        if kind == 'consistent':
            s = draw(st.sampled_from(systems))['name']
            return Probe('consistent-unit table', False, ['PhQ/Unit/%s.hpp' % ut], 'const int OBJ{static_cast<int>(PhQ::ConsistentUnit<%s>(PhQ::UnitSystem::%s))};' % (U, s),
                         'std::to_string(OBJ)|std::to_string(static_cast<int>(PhQ::ConsistentUnit<%s>(PhQ::UnitSystem::%s)))' % (U, s), 'ConsistentUnit<%s>(%s)' % (ut, s))
        if kind == 'related':
            e = 'static_cast<int>(PhQ::RelatedUnitSystem(%s).value_or(static_cast<PhQ::UnitSystem>(-1)))' % u
            return Probe('related-unit-system table', False, ['PhQ/Unit/%s.hpp' % ut], 'const int OBJ{%s};' % e, 'std::to_string(OBJ)|std::to_string(%s)' % e, 'RelatedUnitSystem(%s::%s)' % (ut, Q['unit']['name']))
        if kind == 'stream':
            return Probe('stream insertion of a quantity', False, hq, 'const %s OBJ{%s, %s};' % (T, value_expr(Q), ustd), 'vf_str(OBJ)|vf_str(%s)' % ctor_std, 'operator<< %s' % T)
        if kind == 'compare':
            return Probe('comparison', nonstd, hq, 'const %s OBJ{%s, %s};' % (T, value_expr(Q), u), 'std::to_string(OBJ < %s)+std::to_string(OBJ == OBJ)|std::to_string(%s < %s)+std::to_string(%s == %s)' % (ctor_std, ctor, ctor_std, ctor, ctor), 'compare %s' % T)
        if kind == 'dimensions':
            return Probe('dimension set', False, hq, 'const std::string OBJ{%s::Dimensions().Print()};' % T, 'OBJ|%s::Dimensions().Print()' % T, '%s::Dimensions()' % T)
        if kind == 'model':
            nt = Q['nt']; a = cxx_float(Q['comps'][0], nt)
            m = draw(st.sampled_from(['elastic', 'incompressible', 'compressible']))
            if m == 'elastic':
                mk = 'PhQ::ConstitutiveModel::ElasticIsotropicSolid<%s>(PhQ::YoungModulus<%s>(%s, PhQ::Unit::Pressure::Pascal), PhQ::PoissonRatio<%s>(%s))' % (nt, nt, a, nt, cxx_float(0.25, nt))
                hdr = 'PhQ/ConstitutiveModel/ElasticIsotropicSolid.hpp'; ty = 'PhQ::ConstitutiveModel::ElasticIsotropicSolid<%s>' % nt
            elif m == 'incompressible':
                mk = 'PhQ::ConstitutiveModel::IncompressibleNewtonianFluid<%s>(PhQ::DynamicViscosity<%s>(%s, PhQ::Unit::DynamicViscosity::PascalSecond))' % (nt, nt, a)
                hdr = 'PhQ/ConstitutiveModel/IncompressibleNewtonianFluid.hpp'; ty = 'PhQ::ConstitutiveModel::IncompressibleNewtonianFluid<%s>' % nt
            else:
                mk = 'PhQ::ConstitutiveModel::CompressibleNewtonianFluid<%s>(PhQ::DynamicViscosity<%s>(%s, PhQ::Unit::DynamicViscosity::PascalSecond))' % (nt, nt, a)
                hdr = 'PhQ/ConstitutiveModel/CompressibleNewtonianFluid.hpp'; ty = 'PhQ::ConstitutiveModel::CompressibleNewtonianFluid<%s>' % nt
            return Probe('constitutive model', False, [hdr], 'const %s OBJ{%s};' % (ty, mk), 'OBJ.Print()+OBJ.JSON()|%s.Print()+%s.JSON()' % (mk, mk), 'model %s<%s>' % (m, nt))
        if kind == 'relation':
            nt = Q['nt']; a = cxx_float(Q['comps'][0], nt)
            lu = draw(st.sampled_from(units['Length']['enumerators'])); tu = draw(st.sampled_from(units['Time']['enumerators']))
            e = '(PhQ::Length<%s>(%s, PhQ::Unit::Length::%s) / PhQ::Time<%s>(%s, PhQ::Unit::Time::%s))' % (nt, a, lu['name'], nt, cxx_float(2.0, nt), tu['name'])
            disp = lu['value'] != units['Length']['standard'] or tu['value'] != units['Time']['standard']
            return Probe('relation between quantities', disp, ['PhQ/Speed.hpp', 'PhQ/Length.hpp', 'PhQ/Time.hpp'], 'const PhQ::Speed<%s> OBJ{%s};' % (nt, e), 'vf_hex(OBJ.Value())|vf_hex(%s.Value())' % e, 'Length[%s] / Time[%s]' % (lu['name'], tu['name']))
        raise AssertionError(kind)

    @st.composite
    def program(draw):
        ntu = draw(st.integers(min_value=1, max_value=3))
        tus = []
        for _ in range(ntu):
            probes = draw(st.lists(probe(), min_size=1, max_size=5))
            order = draw(st.permutations(list(range(len(probes)))))
            tus.append([probes[i] for i in order])
        return tus
    return program()

class Program(list):
    """a list of translation units (lists of probes); `inline_objects`: the user's objects are inline variables (partially ordered initialisation)"""
    inline_objects = False
    label = 'generated'

def sweep_programs(scan, intro):
    """Enumerated part of the quantifier: every table facility x every unit type (not sampled), as ordinary and as inline namespace-scope objects."""
    units = sorted((e for e in intro['enumerations'] if e['kind'] == 'unit'), key=lambda e: e['type'])
    systems = [e for e in intro['enumerations'] if e['kind'] == 'unit_system'][0]['enumerators']
    probes = []
    for e in units:
        ut = e['type']; U = 'PhQ::Unit::%s' % ut; hdr = ['PhQ/Unit/%s.hpp' % ut]
        std = [x for x in e['enumerators'] if x['value'] == e['standard']][0]; last = e['enumerators'][-1]
        for en in (std, last):
            u = '%s::%s' % (U, en['name'])
            probes.append(Probe('abbreviation table', False, hdr, 'const std::string OBJ{PhQ::Abbreviation(%s)};' % u, 'OBJ|std::string(PhQ::Abbreviation(%s))' % u, 'Abbreviation(%s::%s)' % (ut, en['name'])))
            ex = 'static_cast<int>(PhQ::RelatedUnitSystem(%s).value_or(static_cast<PhQ::UnitSystem>(-1)))' % u
            probes.append(Probe('related-unit-system table', False, hdr, 'const int OBJ{%s};' % ex, 'std::to_string(OBJ)|std::to_string(%s)' % ex, 'RelatedUnitSystem(%s::%s)' % (ut, en['name'])))
        if e.get('spellings'):
            lit = json.dumps(e['spellings'][-1][0], ensure_ascii=False)
            ex = 'static_cast<int>(PhQ::ParseEnumeration<%s>(%s).value_or(static_cast<%s>(-1)))' % (U, lit, U)
            probes.append(Probe('spelling table', False, hdr, 'const int OBJ{%s};' % ex, 'std::to_string(OBJ)|std::to_string(%s)' % ex, 'ParseEnumeration<%s>(%s)' % (ut, lit)))
        for sy in systems:
            ex = 'static_cast<int>(PhQ::ConsistentUnit<%s>(PhQ::UnitSystem::%s))' % (U, sy['name'])
            probes.append(Probe('consistent-unit table', False, hdr, 'const int OBJ{%s};' % ex, 'std::to_string(OBJ)|std::to_string(%s)' % ex, 'ConsistentUnit<%s>(%s)' % (ut, sy['name'])))
        ex = 'PhQ::Dimensions(PhQ::RelatedDimensions<%s>).Print()' % U
        probes.append(Probe('dimension set', False, hdr, 'const std::string OBJ{%s};' % ex, 'OBJ|%s' % ex, 'RelatedDimensions<%s>' % ut))
    # the two non-unit enumerations: every accepted spelling (all separator styles) parsed before main()
    for e in intro['enumerations']:
        if e['kind'] == 'unit_system': ty, hdr = 'PhQ::UnitSystem', ['PhQ/UnitSystem.hpp']
        elif e['kind'] == 'model_type': ty, hdr = 'PhQ::ConstitutiveModel::Type', ['PhQ/ConstitutiveModel.hpp']
        else: continue
        table = [sp for sp, _ in e.get('spellings', [])]
        # also the same spellings with every separator replaced by each of the others: a parser may accept them without listing them (the probe only
        # compares the answer before main() with the answer inside main(), so a variant that is not accepted at all is harmless)
        seps = ['·', '-', '*', ' ', ', ']
        extra = []
        for sp in table:
            parts = [sp]
            for q in seps: parts = [y for x in parts for y in x.split(q)]
            if len(parts) > 1:
                for q in seps:
                    v = q.join(parts)
                    if v not in table and v not in extra: extra.append(v)
        for sp in table + extra:
            try: sp.encode('utf-8')
            except Exception: continue
            if '\ufffd' in sp: continue
            lit = json.dumps(sp, ensure_ascii=False)
            ex = 'static_cast<int>(PhQ::ParseEnumeration<%s>(%s).value_or(static_cast<%s>(-1)))' % (ty, lit, ty)
            probes.append(Probe('spelling table', False, hdr, 'const int OBJ{%s};' % ex, 'std::to_string(OBJ)|std::to_string(%s)' % ex, 'ParseEnumeration<%s>(%s)' % (ty.split('::')[-1] if 'Unit' in ty else 'ConstitutiveModel::Type', lit)))
        for en in e['enumerators']:
            if not en.get('has_abbreviation'): continue
            ex = 'std::string(PhQ::Abbreviation(%s::%s))' % (ty, en['name'])
            probes.append(Probe('abbreviation table', False, hdr, 'const std::string OBJ{%s};' % ex, 'OBJ|%s' % ex, 'Abbreviation(%s::%s)' % (ty, en['name'])))
    out = []
    for inline_objects in (False, True):
        n = len(probes); third = (n + 2) // 3
        prog = Program([probes[0:third], probes[third:2 * third], probes[2 * third:]])
        prog.inline_objects = inline_objects; prog.label = 'sweep-inline' if inline_objects else 'sweep'
        out.append(prog)
    return out

def render(program, outdir):
    os.makedirs(outdir, exist_ok=True)
    open(os.path.join(outdir, 'common.hpp'), 'w').write(COMMON_HPP)
    idx = 0; meta = []
    for t, probes in enumerate(program):
        headers = []
        for p in probes:
            for h in p.headers:
                if h not in headers: headers.append(h)
        src = ['#include "common.hpp"'] + ['#include <%s>' % h for h in headers] + ['#include <vector>', '']
        body_main = []
        for p in probes:
            obj = 'g_obj_%d' % idx
            first, second = p.expr.split('|')
            # the object itself is a namespace-scope object with static storage duration; the mark is sequenced before its initialiser
            decl = p.decl.replace('OBJ', obj, 1) if p.decl.count('OBJ') == 1 else p.decl.replace('OBJ', obj)
            if getattr(program, 'inline_objects', False):
                # inline variables: partially ordered initialisation - still after every table the headers define before them (same order in every TU)
                src.append('inline const int g_mark_%d = vf_mark(%d);' % (idx, idx))
                src.append('inline ' + decl)
                src.append('inline const std::string g_rec_%d = vf_rec(%d, %s);' % (idx, idx, first.replace('OBJ', obj)))
            else:
                src.append('static const int g_mark_%d = vf_mark(%d);' % (idx, idx))
                src.append(decl)
                src.append('static const std::string g_rec_%d = vf_rec(%d, %s);' % (idx, idx, first.replace('OBJ', obj)))
            body_main.append('  vf_check(%d, %s);' % (idx, second.replace('OBJ', obj)))
            meta.append(dict(index=idx, tu=t, facility=p.facility, dispatch=p.dispatch, text=p.text))
            idx += 1
        src.append('void vf_main_%d() {' % t); src += body_main; src.append('}')
        open(os.path.join(outdir, 'tu%d.cpp' % t), 'w').write('\n'.join(src) + '\n')
    main = ['#include "common.hpp"'] + ['void vf_main_%d();' % t for t in range(len(program))]
    main += ['int main() {', '  vf_mark(-1);'] + ['  vf_main_%d();' % t for t in range(len(program))] + ['  std::printf("DONE %d mismatches\\n", vf_bad());', '  return vf_bad() ? 1 : 0;', '}']
    open(os.path.join(outdir, 'main.cpp'), 'w').write('\n'.join(main) + '\n')
    json.dump(meta, open(os.path.join(outdir, 'probes.json'), 'w'), indent=1)
    return meta

def sh(cmd, cwd=None, timeout=900):
    p = subprocess.run(cmd, cwd=cwd, stdout=subprocess.PIPE, stderr=subprocess.PIPE, text=True, errors='replace', timeout=timeout)
    return p.returncode, p.stdout, p.stderr

def build_and_run(pdir, repo, ntu, meta, pool, configs=None):
    """returns a list of outcome dicts, one per (compiler, opt, link order)"""
    outs = []
    jobs = {}
    CONFIGS_ = configs or CONFIGS
    for cxx, opt in CONFIGS_:
        tag = cxx.replace('+', 'p') + opt
        for name in ['main'] + ['tu%d' % t for t in range(ntu)]:
            obj = os.path.join(pdir, '%s.%s.o' % (name, tag))
            jobs[(tag, name)] = pool.submit(sh, [cxx, '-std=c++17', opt, '-w', '-I', os.path.join(repo, 'include'), '-c', os.path.join(pdir, name + '.cpp'), '-o', obj])
    for cxx, opt in CONFIGS_:
        tag = cxx.replace('+', 'p') + opt
        failed = None
        for name in ['main'] + ['tu%d' % t for t in range(ntu)]:
            rc, so, se = jobs[(tag, name)].result()
            if rc != 0 and failed is None: failed = (name, se[-3000:])
        if failed:
            outs.append(dict(compiler=cxx, opt=opt, order='-', status='compile-error', detail='%s.cpp: %s' % failed)); continue
        orders = [list(range(ntu))]
        if ntu > 1: orders.append(list(reversed(range(ntu))))
        for order in orders:
            exe = os.path.join(pdir, 'prog.%s.%s' % (tag, ''.join(map(str, order))))
            objs = [os.path.join(pdir, 'tu%d.%s.o' % (t, tag)) for t in order] + [os.path.join(pdir, 'main.%s.o' % tag)]
            rc, so, se = sh([cxx] + objs + ['-o', exe])
            if rc != 0:
                outs.append(dict(compiler=cxx, opt=opt, order=order, status='link-error', detail=se[-2000:])); continue
            try: rc, so, se = sh([exe], timeout=60)
            except subprocess.TimeoutExpired: rc, so, se = 124, '', 'timeout'
            marks = [int(l[1:]) for l in se.splitlines() if l.startswith('M') and l[1:].lstrip('-').isdigit()]
            reached_main = -1 in marks
            out = dict(compiler=cxx, opt=opt, order=order, rc=rc, marks=marks, reached_main=reached_main, stdout=so[-1500:], stderr_tail='\n'.join(l for l in se.splitlines() if not l.startswith('M'))[-600:])
            if rc == 0 and reached_main and 'DONE 0 mismatches' in so: out['status'] = 'ok'
            elif reached_main: out['status'] = 'mismatch'
            else:
                out['status'] = 'died-before-main'
                out['last_probe'] = marks[-1] if marks else None
            outs.append(out)
            try: os.remove(exe)
            except OSError: pass
    for f in os.listdir(pdir):
        if f.endswith('.o'): os.remove(os.path.join(pdir, f))
    return outs

def classify(meta, outcome):
    """-> (kind, key, message): kind in ok | known | violation"""
    st = outcome['status']
    cfg = '%s %s order %s' % (outcome['compiler'], outcome['opt'], outcome['order'])
    if st == 'ok': return 'ok', None, None
    if st in ('compile-error', 'link-error'):
        return 'violation', 'build/%s' % outcome['compiler'], '%s: a translation unit that only includes library headers and defines namespace-scope objects does not build: %s' % (cfg, outcome['detail'][-600:])
    if st == 'mismatch':
        return 'violation', 'mismatch', '%s: values computed before main() differ from the same expressions inside main(): %s' % (cfg, outcome['stdout'].strip()[:600])
    lp = outcome.get('last_probe')
    if lp is None or lp < 0 or lp >= len(meta):
        return 'violation', 'died/unattributed', '%s: the program died before main() (exit %s) before any probe was marked: %s' % (cfg, outcome['rc'], outcome['stderr_tail'])
    p = meta[lp]
    earlier_dispatch = [meta[m]['index'] for m in outcome['marks'][:-1] if 0 <= m < len(meta) and meta[m]['dispatch']]
    if outcome['compiler'] == 'g++' and p['dispatch'] and not earlier_dispatch:
        return 'known', 'gcc/conversion-dispatch', '%s: died at the first probe that uses the run-time conversion dispatch tables (probe %d: %s)' % (cfg, lp, p['text'])
    return 'violation', 'died/%s' % p['facility'], '%s: the program died before main() (exit %s) while initialising probe %d [%s: %s]: %s' % (cfg, outcome['rc'], lp, p['facility'], p['text'], outcome['stderr_tail'][-300:])

def main():
    if sys.argv[1] == '--replay':
        pdir, repo = sys.argv[2], sys.argv[3]
        meta = json.load(open(os.path.join(pdir, 'probes.json'))); ntu = len(set(m['tu'] for m in meta))
        with cf.ThreadPoolExecutor(max_workers=16) as pool: outs = build_and_run(pdir, repo, ntu, meta, pool)
        bad = 0
        for o in outs:
            kind, key, msg = classify(meta, o)
            print('%s: %s' % (kind, msg or 'ok %s %s %s' % (o['compiler'], o['opt'], o['order'])))
            if kind == 'violation': bad += 1
        return 1 if bad else 0
    repo, work, scanp, introp, tier, seed, outp = sys.argv[1:8]
    import hypothesis
    from hypothesis import given, settings, seed as hseed, Phase, HealthCheck
    scan = json.load(open(scanp)); intro = json.load(open(introp))
    nprog = {'quick': 16, 'thorough': 120}[tier]
    programs = []
    strat = make_strategies(scan, intro)
    @hseed(int(seed))
    @settings(max_examples=nprog, database=None, deadline=None, phases=[Phase.generate], suppress_health_check=list(HealthCheck), derandomize=False)
    @given(strat)
    def collect(p): programs.append(p)
    collect()
    programs = programs[:nprog]
    programs += sweep_programs(scan, intro)
    t0 = time.time()
    shutil.rmtree(work, ignore_errors=True); os.makedirs(work)
    results = []; facilities = {}; nprobes = 0; configs_run = 0; samples = []; violations = []; known = []
    with cf.ThreadPoolExecutor(max_workers=16) as pool:
        # GCC has a listed known finding (conversion dispatch before main): to keep exploring past it, the g++ configurations get a variant of
        # each program with the dispatch-using probes removed (counted); the full program is also built with g++ for the first few programs
        # that contain such probes, to reproduce the finding.  clang++ always gets the full program.
        GCC = [c for c in CONFIGS if c[0] == 'g++']; CLANG = [c for c in CONFIGS if c[0] != 'g++']
        metas = []; excluded = 0; full_gcc_left = 2
        for k, prog in enumerate(programs):
            pdir = os.path.join(work, 'p%03d' % k)
            has_dispatch = any(p.dispatch for tu in prog for p in tu)
            if not has_dispatch:
                metas.append((pdir, render(prog, pdir), len(prog), CONFIGS))
                continue
            metas.append((pdir, render(prog, pdir), len(prog), CLANG + (GCC if full_gcc_left > 0 else [])))
            full_gcc_left -= 1
            filt = Program(tu for tu in ([p for p in tu if not p.dispatch] for tu in prog) if tu); filt.inline_objects = getattr(prog, 'inline_objects', False)
            excluded += sum(1 for tu in prog for p in tu if p.dispatch)
            if filt:
                gdir = pdir + 'g'
                metas.append((gdir, render(filt, gdir), len(filt), GCC))
        futs = []
        outer = cf.ThreadPoolExecutor(max_workers=4)
        for pdir, meta, ntu, cfgs in metas: futs.append(outer.submit(build_and_run, pdir, repo, ntu, meta, pool, cfgs))
        for (pdir, meta, ntu, cfgs), f in zip(metas, futs):
            outs = f.result()
            nprobes += len(meta)
            for m in meta:
                key = m['facility'] + (' [dispatch]' if m['dispatch'] else '')
                facilities[key] = facilities.get(key, 0) + 1
            if len(samples) < 6: samples.append(dict(program=os.path.basename(pdir), translation_units=ntu, probes=[m['text'] + (' [dispatch]' if m['dispatch'] else '') for m in meta],
                                                    outcomes=['%s %s %s: %s' % (o['compiler'], o['opt'], o['order'], o['status']) for o in outs]))
            keep = False
            for o in outs:
                configs_run += 1
                kind, key, msg = classify(meta, o)
                facilities['outcome:' + o['compiler'] + ':' + o['status']] = facilities.get('outcome:' + o['compiler'] + ':' + o['status'], 0) + 1
                if kind == 'known': known.append(dict(key=key, msg=msg, program=pdir))
                elif kind == 'violation': violations.append(dict(key=key, msg=msg, program=pdir)); keep = True
            if not keep: shutil.rmtree(pdir, ignore_errors=True)
        outer.shutdown()
        facilities['excluded-from-g++-runs: dispatch probes (known finding)'] = excluded
    dispatch_free = sum(1 for (_, meta, _, _) in metas if not any(m['dispatch'] for m in meta))
    table_progs = sum(1 for (_, meta, _, _) in metas if any(m['facility'] != 'compile-time conversion (no table)' for m in meta))
    json.dump(dict(programs=len(metas), generated_programs=len(programs), probes=nprobes, configurations_run=configs_run, dispatch_free_programs=dispatch_free, programs_with_table_probes=table_progs, classes=facilities, samples=samples, violations=violations, known=known,
                   wall_s=time.time() - t0), open(outp, 'w'), indent=1, ensure_ascii=False)
    return 0

if __name__ == '__main__':
    sys.exit(main())
