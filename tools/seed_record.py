#!/usr/bin/env python3
"""usage: seed_record.py <seed-id> key=value [key=value ...]     updates /verif/seeded/<id>/meta.json
       seed_record.py --table                                  prints the markdown table for DESIGN.md section 10"""
import sys, os, json, glob
V = os.path.dirname(os.path.dirname(os.path.abspath(__file__)))
if sys.argv[1] == '--table':
    print('| Seed | Property | Change (files) | Needs to manifest | Suite with the change | First result (checks as of the snapshot) | Final result | Caught by |')
    print('|------|----------|----------------|-------------------|-----------------------|------------------------------------------|--------------|-----------|')
    for p in sorted(glob.glob(os.path.join(V, 'seeded', '*', 'meta.json'))):
        m = json.load(open(p))
        print('| %s | %s | %s (%s) | %s | %s | %s | %s | %s |' % (m.get('seed'), m.get('breaks_property'), m.get('change', ''), ' '.join(os.path.basename(f) for f in m.get('files_changed', [])), m.get('needs', ''),
              m.get('confirmed', {}).get('shipped_suite_with_patch', ''), m.get('baseline_check', ''), m.get('final_check', ''), m.get('caught_by', '')))
    sys.exit(0)
p = os.path.join(V, 'seeded', sys.argv[1], 'meta.json')
m = json.load(open(p)) if os.path.exists(p) else {}
for kv in sys.argv[2:]:
    k, v = kv.split('=', 1); m[k] = v
json.dump(m, open(p, 'w'), indent=1)
