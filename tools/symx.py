#!/usr/bin/env python3
"""Symbol expander (exact Fractions) + the exact, exhaustive parts of C06, C07, C08 and the factor table for C01/C02.

The lexicon below is the independent oracle (DESIGN.md, Appendix A): magnitudes come from the SI brochure,
NIST SP 811 and the 1959 yard-and-pound agreement, *not* from phq.

usage:
  symx.py check <C06|C07|C08> <introspect.json> <result.json>
  symx.py factors <introspect.json> <factors.txt>
"""
import sys, json, re, time, math
from fractions import Fraction as F

T, L, M, I, TH, N, J = range(7)
DIMNAMES = ['T', 'L', 'M', 'I', 'Θ', 'N', 'J']

def D(**k):
    d = [0] * 7
    for a, b in k.items():
        d[{'T': T, 'L': L, 'M': M, 'I': I, 'H': TH, 'N': N, 'J': J}[a]] = b
    return tuple(d)

g0 = F('9.80665'); lbm = F('0.45359237'); ft = F('0.3048'); inch = F('0.0254')
lbf = lbm * g0
ENERGY = D(M=1, L=2, T=-2); FORCE = D(M=1, L=1, T=-2); PRESSURE = D(M=1, L=-1, T=-2)
# atoms that take SI prefixes: symbol -> (magnitude, pi exponent, dims)
BASE = {
    'm': (F(1), 0, D(L=1)), 'g': (F(1, 1000), 0, D(M=1)), 's': (F(1), 0, D(T=1)), 'A': (F(1), 0, D(I=1)), 'K': (F(1), 0, D(H=1)),
    'mol': (F(1), 0, D(N=1)), 'N': (F(1), 0, FORCE), 'J': (F(1), 0, ENERGY), 'W': (F(1), 0, D(M=1, L=2, T=-3)),
    'Pa': (F(1), 0, PRESSURE), 'C': (F(1), 0, D(I=1, T=1)), 'Hz': (F(1), 0, D(T=-1)), 'cal': (F('4.184'), 0, ENERGY),
    'eV': (F('1.602176634e-19'), 0, ENERGY), 'L': (F(1, 1000), 0, D(L=3)),
    # SI derived units with special names that the pinned tree does not use yet
    'V': (F(1), 0, D(M=1, L=2, T=-3, I=-1)), 'Ω': (F(1), 0, D(M=1, L=2, T=-3, I=-2)), 'S': (F(1), 0, D(M=-1, L=-2, T=3, I=2)), 'F': (F(1), 0, D(M=-1, L=-2, T=4, I=2)),
    'Wb': (F(1), 0, D(M=1, L=2, T=-2, I=-1)), 'T': (F(1), 0, D(M=1, T=-2, I=-1)), 'H': (F(1), 0, D(M=1, L=2, T=-2, I=-2)), 'cd': (F(1), 0, D(J=1)), 'lm': (F(1), 0, D(J=1)),
    'lx': (F(1), 0, D(J=1, L=-2)), 'Bq': (F(1), 0, D(T=-1)), 'Gy': (F(1), 0, D(L=2, T=-2)), 'Sv': (F(1), 0, D(L=2, T=-2)), 'kat': (F(1), 0, D(N=1, T=-1)), 'bar': (F(100000), 0, PRESSURE),
}
PREFIX = {'k': F(10) ** 3, 'M': F(10) ** 6, 'G': F(10) ** 9, 'T': F(10) ** 12, 'P': F(10) ** 15, 'm': F(10) ** -3, 'μ': F(10) ** -6,
          'u': F(10) ** -6, 'n': F(10) ** -9, 'd': F(1, 10), 'c': F(1, 100)}
ATOM = {
    'min': (F(60), 0, D(T=1)), 'hr': (F(3600), 0, D(T=1)),
    'nmi': (F(1852), 0, D(L=1)), 'mi': (F('1609.344'), 0, D(L=1)), 'yd': (F('0.9144'), 0, D(L=1)), 'ft': (ft, 0, D(L=1)), 'in': (inch, 0, D(L=1)),
    'mil': (inch / 1000, 0, D(L=1)), 'μin': (inch / 10 ** 6, 0, D(L=1)),
    'kn': (F(1852, 3600), 0, D(L=1, T=-1)),
    'rad': (F(1), 0, D()), 'deg': (F(1, 180), 1, D()), 'arcmin': (F(1, 180 * 60), 1, D()), 'arcsec': (F(1, 180 * 3600), 1, D()), 'rev': (F(2), 1, D()),
    'sr': (F(1), 0, D()),
    'ha': (F(10000), 0, D(L=2)), 'ac': (F('4046.8564224'), 0, D(L=2)),
    'P': (F(1, 10), 0, D(M=1, L=-1, T=-1)),
    'lbf': (lbf, 0, FORCE), 'dyn': (F(1, 100000), 0, FORCE),
    'e': (F('1.602176634e-19'), 0, D(I=1, T=1)),
    'BTU': (F('1055.05585262'), 0, ENERGY),
    'kg': (F(1), 0, D(M=1)), 'slug': (lbf / ft, 0, D(M=1)), 'slinch': (lbf / inch, 0, D(M=1)), 'lbm': (lbm, 0, D(M=1)),
    'b': (F(1), 0, D()), 'B': (F(8), 0, D()),
    'bar': (F(100000), 0, PRESSURE), 'atm': (F(101325), 0, PRESSURE),
    'particles': (1 / F('6.02214076e23'), 0, D(N=1)),
    '°C': (F(1), 0, D(H=1)), '°R': (F(5, 9), 0, D(H=1)), '°F': (F(5, 9), 0, D(H=1)),
    # units the pinned tree does not have (SI brochure table 8, NIST SP 811 appendix B): a unit ADDED to the library with one of these symbols is decidable
    'd': (F(86400), 0, D(T=1)), 'day': (F(86400), 0, D(T=1)), 'h': (F(3600), 0, D(T=1)), 'wk': (F(604800), 0, D(T=1)),
    'au': (F(149597870700), 0, D(L=1)), 'Å': (F(1, 10 ** 10), 0, D(L=1)), 'fur': (F('201.168'), 0, D(L=1)), 'ftm': (F('1.8288'), 0, D(L=1)), 'ch': (F('20.1168'), 0, D(L=1)),
    't': (F(1000), 0, D(M=1)), 'oz': (lbm / 16, 0, D(M=1)), 'gr': (lbm / 7000, 0, D(M=1)), 'Da': (F('1.66053906660e-27'), 0, D(M=1)),
    'kgf': (g0, 0, FORCE), 'kip': (1000 * lbf, 0, FORCE), 'pdl': (lbm * ft, 0, FORCE),
    'Torr': (F(101325, 760), 0, PRESSURE), 'mmHg': (F('133.322387415'), 0, PRESSURE), 'ksi': (1000 * lbf / inch ** 2, 0, PRESSURE),
    'erg': (F(1, 10 ** 7), 0, ENERGY), 'Wh': (F(3600), 0, ENERGY), 'kWh': (F(3600000), 0, ENERGY), 'thm': (F('105505585.262'), 0, ENERGY),
    'St': (F(1, 10 ** 4), 0, D(L=2, T=-1)), 'gon': (F(1, 200), 1, D()), 'grad': (F(1, 200), 1, D()),
}
# affine temperature units (unit type Temperature only): K = x * F + O
AFFINE = {'°C': F('273.15'), '°F': F('459.67') * F(5, 9)}

class Unknown(Exception):
    pass

def atom(sym):
    if sym in ATOM: return ATOM[sym]
    if sym in BASE: return BASE[sym]
    m = re.fullmatch(r'([kMGTP])(i?)([bB])', sym)
    if m:
        idx = 'kMGTP'.index(m.group(1)) + 1
        f = (F(1024) ** idx if m.group(2) else F(1000) ** idx) * (8 if m.group(3) == 'B' else 1)
        return (f, 0, D())
    if len(sym) > 1 and sym[0] in PREFIX and sym[1:] in BASE:
        b = BASE[sym[1:]]
        return (PREFIX[sym[0]] * b[0], b[1], b[2])
    raise Unknown(sym)

def powr(a, e):
    return (a[0] ** e, a[1] * e, tuple(x * e for x in a[2]))

def mul(a, b, sign=1):
    if sign > 0: return (a[0] * b[0], a[1] + b[1], tuple(x + y for x, y in zip(a[2], b[2])))
    return (a[0] / b[0], a[1] - b[1], tuple(x - y for x, y in zip(a[2], b[2])))

ONE = (F(1), 0, (0,) * 7)

def expand_abbreviation(s):
    """symbol := ['/'] factor { ('·'|'/') factor };  factor := atom ['^' int];  '/' binds the next factor only."""
    r = ONE
    toks = re.findall(r'[·/]|[^·/]+', s)
    sign = 1
    for t in toks:
        if t == '·': sign = 1; continue
        if t == '/': sign = -1; continue
        m = re.fullmatch(r'(.+?)(?:\^(-?\d+))?', t)
        a = atom(m.group(1)) if m.group(1) != '1' else ONE
        r = mul(r, powr(a, int(m.group(2) or 1)), sign)
        sign = 1
    return r

# ---- spellings: alternatives per word ---------------------------------------------------------------
EXTRA = {
    'lb': ['lbf', 'lbm'], 'lbs': ['lbf', 'lbm'], 'C': ['°C', 'C'], 'F': ['°F'], 'R': ['°R'],
    '°K': ['K'], 'degK': ['K'], 'degC': ['°C'], 'degR': ['°R'], 'degF': ['°F'],
    'uin': ['μin'], 'milliinch': ['mil'], 'millinch': ['mil'], 'thou': ['mil'], 'milin': ['mil'], 'thousandth': ['mil'], 'thousandths': ['mil'],
    'milliinches': ['mil'], 'mils': ['mil'], 'thous': ['mil'],
    'NM': ['nmi'], '°': ['deg'], "'": ['arcmin'], '"': ['arcsec'], 'am': ['arcmin'], 'as': ['arcsec'], 'arcs': ['arcsec'],
    'Cal': ['kcal'], 'btu': ['BTU'], 'knot': ['kn'], 'knots': ['kn'],
    'radian': ['rad'], 'radians': ['rad'], 'degree': ['deg'], 'degrees': ['deg'], 'arcminute': ['arcmin'], 'arcminutes': ['arcmin'],
    'arcsecond': ['arcsec'], 'arcseconds': ['arcsec'], 'revolution': ['rev'], 'revolutions': ['rev'], 'atmosphere': ['atm'],
    'steradian': ['sr'], 'steradians': ['sr'],
    'mins': ['min'], 'hrs': ['hr'], 'sec': ['s'], 'secs': ['s'],
    'meter': ['m'], 'meters': ['m'], 'metre': ['m'], 'metres': ['m'], 'yard': ['yd'], 'yards': ['yd'], 'foot': ['ft'], 'feet': ['ft'],
    'inch': ['in'], 'inches': ['in'], 'micron': ['μm'], 'microns': ['μm'], 'microinch': ['μin'], 'microinches': ['μin'],
    'mile': ['mi'], 'miles': ['mi'], 'nautical mile': ['nmi'], 'nautical miles': ['nmi'],
    'second': ['s'], 'seconds': ['s'], 'minute': ['min'], 'minutes': ['min'], 'hour': ['hr'], 'hours': ['hr'],
    'bit': ['b'], 'bits': ['b'], 'byte': ['B'], 'bytes': ['B'],
    'acre': ['ac'], 'acres': ['ac'], 'hectare': ['ha'], 'hectares': ['ha'],
    'gram': ['g'], 'grams': ['g'], 'slugs': ['slug'], 'slinches': ['slinch'], 'pound': ['lbf', 'lbm'], 'pounds': ['lbf', 'lbm'],
    'newton': ['N'], 'newtons': ['N'], 'joule': ['J'], 'joules': ['J'], 'watt': ['W'], 'watts': ['W'], 'pascal': ['Pa'], 'pascals': ['Pa'],
    'kelvin': ['K'], 'kelvins': ['K'], 'ampere': ['A'], 'amperes': ['A'], 'mole': ['mol'], 'moles': ['mol'], 'coulomb': ['C'], 'coulombs': ['C'],
    'hertz': ['Hz'], 'liter': ['L'], 'liters': ['L'], 'litre': ['L'], 'litres': ['L'], 'l': ['L'],
    'psf': [(lbf / ft ** 2, 0, PRESSURE)], 'psi': [(lbf / inch ** 2, 0, PRESSURE)],
    'celsius': ['°C'], 'rankine': ['°R'], 'fahrenheit': ['°F'],
    'days': ['d'], 'week': ['wk'], 'weeks': ['wk'], 'furlong': ['fur'], 'furlongs': ['fur'], 'fathom': ['ftm'], 'fathoms': ['ftm'], 'tonne': ['t'], 'tonnes': ['t'],
    'ounce': ['oz'], 'ounces': ['oz'], 'grain': ['gr'], 'grains': ['gr'], 'torr': ['Torr'], 'volt': ['V'], 'volts': ['V'], 'ohm': ['Ω'], 'ohms': ['Ω'], 'farad': ['F'], 'farads': ['F'],
    'tesla': ['T'], 'teslas': ['T'], 'henry': ['H'], 'henries': ['H'], 'weber': ['Wb'], 'webers': ['Wb'], 'siemens': ['S'], 'candela': ['cd'], 'candelas': ['cd'], 'lumen': ['lm'], 'lumens': ['lm'], 'lux': ['lx'],
}
NAMEPREFIX = {'kilo': 'k', 'mega': 'M', 'giga': 'G', 'tera': 'T', 'peta': 'P', 'milli': 'm', 'micro': 'μ', 'nano': 'n', 'deci': 'd', 'centi': 'c',
              'kibi': 'ki', 'mebi': 'Mi', 'gibi': 'Gi', 'tebi': 'Ti', 'pebi': 'Pi'}

def alts(w):
    out = []
    try: out.append(atom(w))
    except Unknown: pass
    for x in EXTRA.get(w, []):
        out.append(atom(x) if isinstance(x, str) else x)
    if not out:
        # spelled-out prefix + spelled-out or symbolic unit: kilometre, Micrometre, kibibyte ...
        lw = w[0].lower() + w[1:]
        for pn, ps in NAMEPREFIX.items():
            if lw.startswith(pn) and len(lw) > len(pn):
                rest = lw[len(pn):]
                for cand in EXTRA.get(rest, []) + [rest]:
                    if isinstance(cand, str):
                        try: out.append(atom(ps + cand))
                        except Unknown: pass
    # dedupe
    res = []
    for a in out:
        if a not in res: res.append(a)
    return res

def spelling_candidates(s):
    """All (mag, pi, dims) a spelling can denote.  Raises Unknown for atoms the lexicon does not know."""
    if s in EXTRA or ' ' in s and alts(s):
        c = alts(s)
        if c: return c
    toks = re.findall(r'[·*/()^]|[^·*/()^\s]+', s)
    pos = 0
    def factor():
        nonlocal pos
        if pos >= len(toks): raise Unknown('<end>')
        t = toks[pos]
        if t == '(':
            pos += 1; r = expr()
            if pos >= len(toks) or toks[pos] != ')': raise Unknown('paren')
            pos += 1
        elif t in '·*/)^':
            raise Unknown(t)
        else:
            pos += 1
            if t == '1': r = [ONE]
            else:
                c = alts(t)
                if c: r = c
                else:
                    m = re.fullmatch(r'(.*?[^\d-])(-?\d+)', t)   # implicit exponent: m2, s-1
                    if not m: raise Unknown(t)
                    c = alts(m.group(1))
                    if not c: raise Unknown(m.group(1))
                    r = [powr(a, int(m.group(2))) for a in c]
        if pos < len(toks) and toks[pos] == '^':
            if pos + 1 >= len(toks) or not re.fullmatch(r'-?\d+', toks[pos + 1]): raise Unknown('^')
            e = int(toks[pos + 1]); pos += 2
            r = [powr(a, e) for a in r]
        return r
    def expr():
        nonlocal pos
        if pos < len(toks) and toks[pos] == '/': r = [ONE]
        else: r = factor()
        while pos < len(toks) and toks[pos] in '·*/':
            op = toks[pos]; pos += 1; f = factor()
            r = [mul(a, b, -1 if op == '/' else 1) for a in r for b in f]
        # juxtaposition (blank-separated words) is multiplication: "lbf ft"
        while pos < len(toks) and toks[pos] not in ')':
            f = factor(); r = [mul(a, b) for a in r for b in f]
            while pos < len(toks) and toks[pos] in '·*/':
                op = toks[pos]; pos += 1; f = factor()
                r = [mul(a, b, -1 if op == '/' else 1) for a in r for b in f]
        return r
    r = expr()
    if pos != len(toks): raise Unknown('trailing')
    return r

# -----------------------------------------------------------------------------------------------------
class Result:
    def __init__(self, prop):
        self.prop = prop; self.evaluations = 0; self.nontrivial = set(); self.samples = []; self.violations = []
        self.classes = {}; self.notes = []
    def case(self, key, nontrivial, cls, sample=None):
        self.evaluations += 1
        self.classes[cls] = self.classes.get(cls, 0) + 1
        if nontrivial:
            if key not in self.nontrivial and (len(self.nontrivial) % 97 == 0) and len(self.samples) < 40 and sample is not None:
                self.samples.append(sample)
            self.nontrivial.add(key)
    def violate(self, key, what, **detail):
        self.violations.append(dict(key=key, what=what, **detail))
    def dump(self, path, wall):
        json.dump(dict(evaluations=self.evaluations, distinct_nontrivial=len(self.nontrivial), classes=self.classes,
                       samples=self.samples, notes=self.notes, violations=self.violations, wall_s=wall, exhaustive=True),
                  open(path, 'w'), ensure_ascii=False, indent=1)

def unit_types(d):
    return [e for e in d['enumerations'] if e['kind'] == 'unit']

def mag_of_unit(e, en):
    """exact magnitude of enumerator entry en of unit type e, from its own abbreviation"""
    return expand_abbreviation(en['abbreviation'])

def check_c06(d, R):
    uts = {e['type']: e for e in unit_types(d)}
    for e in uts.values():
        dd = tuple(e['dimensions'])
        for en in e['enumerators']:
            key = 'unit-dims/%s::%s' % (e['type'], en['name'])
            if not en.get('has_abbreviation'):
                R.case(key, False, 'unit-without-abbreviation'); continue
            try:
                mag, pi, dims = expand_abbreviation(en['abbreviation'])
            except Unknown as u:
                R.case(key, False, 'unrecognised-atom'); R.notes.append('unrecognised atom %s in %s' % (u, en['abbreviation'])); continue
            R.case(key, any(dims) or True, 'unit-symbol-dimensions', dict(unit=e['type'] + '::' + en['name'], symbol=en['abbreviation'], expanded_dims=list(dims), declared=list(dd)))
            if dims != dd:
                R.violate(key, 'the dimensions of unit symbol %r are %s but the unit type %s declares %s' % (en['abbreviation'], list(dims), e['type'], list(dd)))
    for q in d['quantities']:
        key = 'quantity-dims/' + q['name']
        if 'unit_type' in q:
            ut = uts.get(q['unit_type'])
            if ut is None:
                R.violate(key, 'quantity %s is measured in unknown unit type %s' % (q['name'], q['unit_type'])); continue
            for k in ('dimensions', 'dimensions_f', 'dimensions_l'):
                R.case(key + '/' + k, True, 'quantity-dimensions', dict(quantity=q['name'], unit_type=q['unit_type'], dims=q[k]))
                if q[k] != ut['dimensions']:
                    R.violate(key, '%s::%s is %s but its unit type %s has %s' % (q['name'], k, q[k], q['unit_type'], ut['dimensions']))
            R.case(key + '/unit', True, 'quantity-standard-unit')
            if q['unit'] != ut['standard']:
                R.violate(key + '/unit', '%s::Unit() is not the standard unit of %s' % (q['name'], q['unit_type']))
        elif 'dimensions' in q:
            R.case(key, True, 'dimensionless-quantity-dimensions', dict(quantity=q['name'], dims=q['dimensions']))
            for k in ('dimensions', 'dimensions_f', 'dimensions_l'):
                if any(q[k]):
                    R.violate(key, 'dimensionless quantity %s reports dimensions %s' % (q['name'], q[k]))
        else:
            R.case(key, False, 'quantity-without-dimension-set')

def system_bases(d):
    """Base magnitudes (L, M, T, Θ) of each unit system, read from the system's own abbreviation."""
    us = [e for e in d['enumerations'] if e['kind'] == 'unit_system'][0]
    out = {}
    for en in us['enumerators']:
        atoms = en['abbreviation'].split('·')
        b = {}
        for a in atoms:
            mag, pi, dims = atom(a)
            if dims == D(L=1): b['L'] = mag
            elif dims == D(M=1): b['M'] = mag
            elif dims == D(T=1): b['T'] = mag
            elif dims == D(H=1): b['H'] = mag
            elif dims == FORCE: b['force'] = mag
            else: raise Unknown(a)
        if 'M' not in b: b['M'] = b['force'] * b['T'] ** 2 / b['L']   # mass unit of a gravitational (force-based) system
        out[en['name']] = (en['value'], b)
    return us, out

def check_c07(d, R):
    us, bases = system_bases(d)
    std_sys = us['standard']
    for e in unit_types(d):
        dd = e['dimensions']
        byval = {en['value']: en for en in e['enumerators']}
        forward = {}
        for sname, (sval, b) in bases.items():
            key = 'coherent/%s/%s' % (e['type'], sname)
            cu = e['consistent_unit'].get(sname)
            if cu is None:
                R.case(key, True, 'consistent-unit'); R.violate(key, 'no consistent unit of type %s for unit system %s' % (e['type'], sname)); continue
            forward[sval] = cu
            en = byval.get(cu)
            if en is None or not en.get('has_abbreviation'):
                R.case(key, True, 'consistent-unit'); R.violate(key, 'consistent unit value %s of %s is not a declared enumerator with an abbreviation' % (cu, e['type'])); continue
            mag, pi, dims = mag_of_unit(e, en)
            want = b['T'] ** dd[0] * b['L'] ** dd[1] * b['M'] ** dd[2] * b['H'] ** dd[4]
            R.case(key, want != 1 or any(dd), 'consistent-unit', dict(unit_type=e['type'], system=sname, unit=en['name'], symbol=en['abbreviation'], magnitude=str(mag), product_of_base_units=str(want)))
            if mag != want or pi != 0:
                R.violate(key, 'consistent unit %s (%s) of system %s has SI magnitude %s·π^%d but the product of the base units is %s' % (en['name'], en['abbreviation'], sname, mag, pi, want))
            if sval == std_sys:
                R.case(key + '/std', True, 'standard-system-gives-standard-unit')
                if cu != e['standard']:
                    R.violate(key + '/std', 'the standard unit system\'s consistent unit of %s is %s, not the standard unit' % (e['type'], en['name']))
        # reverse lookup
        inv = {}
        for sval, cu in forward.items(): inv.setdefault(cu, []).append(sval)
        for en, rs in zip(e['enumerators'], e['related_unit_system']):
            key = 'related/%s::%s' % (e['type'], en['name'])
            want = inv[en['value']][0] if en['value'] in inv and len(inv[en['value']]) == 1 else -1
            R.case(key, en['value'] in inv, 'related-unit-system', dict(unit=e['type'] + '::' + en['name'], related=rs, systems_where_consistent=inv.get(en['value'], [])))
            if rs != want:
                R.violate(key, 'RelatedUnitSystem(%s::%s) = %s but the unit is the consistent unit of systems %s' % (e['type'], en['name'], rs, inv.get(en['value'], [])))

def norm_name(s):
    return re.sub(r'[\s_\-]', '', s).lower()

def check_c08(d, R):
    us, bases = system_bases(d)
    for e in d['enumerations']:
        tname = e['type']
        ens = e['enumerators']
        byval = {en['value']: en for en in ens}
        key0 = 'table/' + tname
        R.case(key0 + '/sizes', True, 'table-sizes')
        if e['abbreviations_size'] != len(ens):
            R.violate(key0 + '/sizes', '%s declares %d enumerators but has %d abbreviations' % (tname, len(ens), e['abbreviations_size']))
        if len(set(en['value'] for en in ens)) != len(ens):
            R.violate(key0 + '/values', '%s has duplicate enumerator values' % tname)
        abbrs = {}
        for en in ens:
            key = 'enumerator/%s::%s' % (tname, en['name'])
            R.case(key, True, 'enumerator-abbreviation', dict(enumerator=tname + '::' + en['name'], abbreviation=en.get('abbreviation'), streams_as=en.get('streams_as'), parses_back_to=en.get('parse_of_abbreviation')))
            if not en.get('has_abbreviation'):
                R.violate(key, 'enumerator %s::%s has no abbreviation' % (tname, en['name'])); continue
            if 'streams_as' in en and en['streams_as'] != en['abbreviation']:
                R.violate(key + '/stream', '%s::%s streams as %r, abbreviation is %r' % (tname, en['name'], en['streams_as'], en['abbreviation']))
            if en['parse_of_abbreviation'] != en['value']:
                R.violate(key + '/parse', 'abbreviation %r of %s::%s parses to %s' % (en['abbreviation'], tname, en['name'], byval.get(en['parse_of_abbreviation'], {}).get('name', 'nothing')))
            if en['abbreviation'] in abbrs:
                R.violate(key + '/unique', 'abbreviation %r is shared by %s and %s' % (en['abbreviation'], abbrs[en['abbreviation']], en['name']))
            abbrs[en['abbreviation']] = en['name']
        if e['kind'] == 'unit':
            R.case(key0 + '/dispatch-sizes', True, 'table-sizes')
            if any(s != len(ens) for s in e['dispatch_sizes']):
                R.violate(key0 + '/dispatch-sizes', '%s: conversion dispatch tables have sizes %s for %d enumerators' % (tname, e['dispatch_sizes'], len(ens)))
            for en, m in zip(ens, e['dispatch']):
                key = 'dispatch/%s::%s' % (tname, en['name'])
                R.case(key, True, 'conversion-dispatch-row')
                if m != [3, 3, 3]:
                    R.violate(key, '%s::%s lacks a to/from-standard conversion row (float,double,long double masks %s)' % (tname, en['name'], m))
            # "(for units) converts to and from the standard unit": what the run-time conversion does with 0 and 1 in the unit is the affine map its own abbreviation denotes
            for en, cv in zip(ens, e.get('converts', [])):
                if cv is None or not en.get('has_abbreviation'): continue
                key = 'converts/%s::%s' % (tname, en['name'])
                try: mag, pi, dims = mag_of_unit(e, en)
                except Unknown: R.case(key, False, 'converts-unrecognised-atom'); continue
                off = AFFINE.get(en['abbreviation'], F(0)) if tname == 'Temperature' else F(0)
                want = float(mag) * math.pi ** pi
                t0, t1, f0, f1 = [float(x) for x in cv]
                R.case(key, en['value'] != e['standard'], 'converts', dict(unit=tname + '::' + en['name'], symbol=en['abbreviation'], to_standard_of_1=cv[1], denotes=want))
                ok = abs((t1 - t0) - want) <= 1e-12 * abs(want) and abs(t0 - float(off)) <= 1e-12 * max(1.0, abs(float(off))) and abs((f1 - f0) * want - 1) <= 1e-12 and abs(f0 * want + float(off)) <= 1e-9 * max(1.0, abs(float(off)))
                if not ok:
                    R.violate(key, '%s::%s (%s) converts 0 and 1 to the standard unit as %s and %s (and back as %s, %s), but its abbreviation denotes the factor %.17g%s' % (
                        tname, en['name'], en['abbreviation'], cv[0], cv[1], cv[2], cv[3], want, (' and the offset %.17g' % float(off)) if off else ''), unit=en['name'], type=tname)
        # spellings
        for sp, val in e['spellings']:
            key = 'spelling/%s/%s' % (tname, sp)
            if val == -2:
                R.case(key, True, 'spelling'); R.violate(key, 'ParseEnumeration<%s>(%r) disagrees with the spelling table' % (tname, sp)); continue
            en = byval.get(val)
            if en is None:
                R.case(key, True, 'spelling'); R.violate(key, 'spelling %r of %s parses to undeclared value %s' % (sp, tname, val)); continue
            nontrivial = sp != en.get('abbreviation')
            if e['kind'] == 'unit':
                try:
                    want = mag_of_unit(e, en)
                    cands = spelling_candidates(sp)
                except Unknown as u:
                    R.case(key, False, 'spelling-unrecognised-atom'); R.notes.append('unrecognised: %s %r (%s)' % (tname, sp, u)); continue
                dd = tuple(e['dimensions'])
                c = [x for x in cands if x[2] == dd]
                R.case(key, nontrivial, 'unit-spelling', dict(type=tname, spelling=sp, parses_to=en['name'], symbol=en['abbreviation'], denotes=[[str(x[0]), x[1]] for x in c][:3]))
                if not c:
                    R.violate(key, 'spelling %r of %s denotes dimensions %s, not those of the unit type' % (sp, tname, [list(x[2]) for x in cands][:2]), spelling=sp, type=tname)
                elif not any(x[0] == want[0] and x[1] == want[1] for x in c):
                    R.violate(key, 'spelling %r parses to %s::%s (%s, SI magnitude %s·π^%d) but denotes SI magnitude %s' % (
                        sp, tname, en['name'], en['abbreviation'], float(want[0]), want[1], ' or '.join('%s·π^%d' % (float(x[0]), x[1]) for x in c)), spelling=sp, type=tname)
            elif e['kind'] == 'unit_system':
                # the spelling denotes the system(s) whose abbreviation atoms contain all of the spelling's atoms
                toks = [t for t in re.split(r'[·\-*,\s]+', sp) if t]
                alias = {'lb': 'lbf', 'R': '°R'}
                toks = [alias.get(t, t) for t in toks]
                match = [x for x in ens if all(t in x['abbreviation'].split('·') for t in toks)]
                R.case(key, nontrivial, 'unit-system-spelling', dict(spelling=sp, parses_to=en['name'], atoms=toks, systems_containing_all_atoms=[x['name'] for x in match]))
                if not toks or not match:
                    R.notes.append('unit-system spelling %r: atoms not recognised' % sp)
                elif [x['name'] for x in match] != [en['name']]:
                    R.violate(key, 'unit system spelling %r parses to %s but its atoms select %s' % (sp, en['name'], [x['name'] for x in match]), spelling=sp, type=tname)
            else:
                R.case(key, nontrivial, 'model-type-spelling', dict(spelling=sp, parses_to=en['name']))
                if norm_name(sp) != norm_name(en['name']) and norm_name(sp) != norm_name(en.get('abbreviation', '')):
                    R.violate(key, 'model type spelling %r parses to %s' % (sp, en['name']), spelling=sp, type=tname)
        # every abbreviation is itself an accepted spelling (parses back) - covered above via parse_of_abbreviation

def write_factors(d, path):
    with open(path, 'w') as f:
        for e in unit_types(d):
            for en in e['enumerators']:
                if not en.get('has_abbreviation'): continue
                try: mag, pi, dims = mag_of_unit(e, en)
                except Unknown: continue
                off = AFFINE.get(en['abbreviation'], F(0)) if e['type'] == 'Temperature' else F(0)
                f.write('%s %d %s %d %d %d %d %d\n' % (e['type'], en['value'], en['name'], mag.numerator, mag.denominator, pi, off.numerator, off.denominator))

def write_systems(d, path):
    """per unit type: declared dimension exponents and the consistent unit of each system; per system: exact base magnitudes (L, M, T, Theta)"""
    us, bases = system_bases(d)
    with open(path, 'w') as f:
        for sname, (sval, b) in bases.items():
            f.write('BASE %s %d %d %d %d %d %d %d %d\n' % (sname, b['L'].numerator, b['L'].denominator, b['M'].numerator, b['M'].denominator, b['T'].numerator, b['T'].denominator, b['H'].numerator, b['H'].denominator))
        for e in unit_types(d):
            f.write('DIMS %s %s\n' % (e['type'], ' '.join(str(x) for x in e['dimensions'])))
            for sname, cu in e['consistent_unit'].items():
                if cu is not None: f.write('SYS %s %s %d\n' % (e['type'], sname, cu))

def main():
    if sys.argv[1] == 'factors':
        d = json.load(open(sys.argv[2]))
        write_factors(d, sys.argv[3]); write_systems(d, sys.argv[3] + '.systems'); return 0
    prop, intro, out = sys.argv[2], sys.argv[3], sys.argv[4]
    d = json.load(open(intro))
    t0 = time.time()
    R = Result(prop)
    {'C06': check_c06, 'C07': check_c07, 'C08': check_c08}[prop](d, R)
    R.dump(out, time.time() - t0)
    return 0

if __name__ == '__main__':
    sys.exit(main())
