#!/usr/bin/env python3
"""usage: seed_prompt.py <Cxx> <round> [focus text]     prints the prompt for a fresh sub-agent that is to break property Cxx in /tmp/seed<round>_<Cxx>

The sub-agent sees ONLY the text of the property (title, statement, quantifier) and, from round 2 on, one-line descriptions of the changes earlier
sub-agents produced for the same property (so that it does not repeat them).  Nothing from /verif's machinery is shown to it."""
import sys, os, json, glob
V = os.path.dirname(os.path.dirname(os.path.abspath(__file__)))
pid, rnd = sys.argv[1], int(sys.argv[2])
focus = sys.argv[3] if len(sys.argv) > 3 else ''
prop = None
for line in open(os.path.join(V, 'properties.jsonl')):
    d = json.loads(line)
    if d['id'] == pid: prop = d
W = '/tmp/seed%d_%s' % (rnd, pid)
text = '%s — %s\n\nStatement: %s\n\nQuantifier: %s\n' % (pid, prop['title'], prop['statement'], prop['quantifier']['text'])
earlier = []
for p in sorted(glob.glob(os.path.join(V, 'seeded', pid + '_agent*', 'meta.json'))):
    m = json.load(open(p))
    if m.get('change'): earlier.append('   "%s" (it needed: %s)' % (m['change'], m.get('needs', '?')))
avoid = ''
if earlier:
    avoid = '''
IMPORTANT - other engineers have already produced these changes for the same property, so do NOT repeat any of them or a close variant (a different mechanism AND a different code site are required):
%s
Look for a different kind of weakness, for example: behaviour that depends on the PRIOR STATE of an object or on a SEQUENCE of calls (mutators, compound assignments, assignment into an object that already holds a value, copy/move); TWO COOPERATING sites that are each plausible alone; a rarely used ENTRY POINT / overload / numeric type (float or long double) / unit among many similar ones; a part of the property's statement the earlier changes did not touch; a BOUNDARY of the input domain (very large or very small magnitudes, signed zero, exact ties, subnormal numbers); compiler-specific behaviour (g++ and clang++ are both installed).
''' % '\n'.join(earlier)
if focus: avoid += '\nPreferred direction for this attempt (follow it if you can make it work, otherwise choose freely): %s\n' % focus
print(f'''You are working in a private git worktree of the header-only C++17 library acodcha/phq (typed physical quantities, units, vectors/tensors, constitutive models) at {W}. Work ONLY inside {W}; do not read or modify /repo, /verif or any other directory.

Here is a semantic property the library is supposed to satisfy:

{text}
Your task: produce a change to the library (files under include/ only) that BREAKS this property, while
 (1) the library and its whole test-suite still compile, and
 (2) the existing test suite, unedited, still passes completely.
Build and run the suite like this (use at most 6 parallel jobs; other jobs share this machine):
   cd {W} && cmake -G Ninja -S . -B _build -DPHYSICAL_QUANTITIES_PHQ_TEST=ON -DCMAKE_BUILD_TYPE=RelWithDebInfo -DCMAKE_CXX_FLAGS=-Wno-error > /dev/null && cmake --build _build -j6 2>&1 | tail -3 && ctest --test-dir _build -j6 --timeout 900 2>&1 | tail -5
(The *.Performance tests are timing tests and can fail under machine load; rerun a failed one alone before concluding anything.)

The change must be REALISTIC (the kind of slip a maintainer could make in a refactoring, an "optimisation", a copy-paste, a cleanup) and SUBTLE: it must need something specific to manifest - an unusual input (a particular magnitude, sign, unit, numeric type such as float or long double, a boundary value), a multi-step sequence of operations, or two cooperating sites that each look fine alone. It must NOT be something that ordinary use of the library would expose at once. Prefer a change whose effect is confined to a small part of the input space or to one of many similar code sites. The violation must be a real violation of the property AS STATED (inputs inside the domain the statement quantifies over, an effect larger than the tolerance the statement allows), not a matter of taste.
{avoid}
Deliver these files in {W}/seed/ :
  - patch.diff : `git diff` of your change against HEAD (library files only; it must apply with `git apply` on a clean checkout of HEAD)
  - demo.cpp   : a small standalone program that uses only the library and the C++ standard library; it exits 0 when the property holds on the inputs it tries and non-zero (printing what went wrong) when the property is violated. It must FAIL with your change applied and PASS on the unmodified HEAD. Compile with: g++ -std=c++17 -O1 -I include seed/demo.cpp -o {W}/seed/demo   (if the demonstration needs several translation units, another compiler or special flags, add seed/build.sh, run from the worktree root with `sh seed/build.sh`, whose exit code is the verdict)
  - notes.md   : what the change is and where, what exactly is needed for it to manifest (inputs / sequence / numeric type / compiler), why the existing tests do not notice, and the commands you ran with their results.

Verify everything yourself before finishing: the test suite passes with the change applied; demo fails with the change; demo passes without it (use `git apply -R seed/patch.diff` and `git apply seed/patch.diff`; never `git stash`: the stash is shared between worktrees). Leave the worktree with your change APPLIED (not committed) and the files in seed/. Your final answer should be a short summary: the change, what manifests it, and the verification results.''')
