#!/bin/bash
# usage: tools/mutate.sh <patch-or-sed-script> <Cxx> [tier]
# Applies a mutant to a scratch copy of the tree (outside /repo and /verif), runs the check against it, removes the copy.
# A patch file (*.diff|*.patch) is applied with `git apply`/patch -p1; a *.sed file is `path<TAB>sed-expression` lines.
set -u
M="$(realpath "$1")"; P="$2"; T="${3:-quick}"
W=$(mktemp -d /tmp/vfmut.XXXXXX)
mkdir -p "$W/repo"; cp -r "${VERIF_REPO_BASE:-/repo}/include" "$W/repo/include"
case "$M" in
  *.sed) while IFS=$'\t' read -r f e; do [ -z "$f" ] && continue; sed -i -E "$e" "$W/repo/$f" || exit 3; done < "$M" ;;
  *) (cd "$W/repo" && patch -s -p1 < "$M") || { echo "patch failed"; rm -rf "$W"; exit 3; } ;;
esac
if diff -rq "${VERIF_REPO_BASE:-/repo}/include" "$W/repo/include" >/dev/null; then echo "MUTANT DID NOT CHANGE THE TREE"; rm -rf "$W"; exit 3; fi
VERIF_REPO="$W/repo" "$(dirname "$0")/../bin/check" "$P" "$T"; rc=$?
rm -rf "$W"
exit $rc
