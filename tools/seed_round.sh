#!/bin/bash
# Bookkeeping for a round of sub-agent seeds.  <round> is the agent number (worktrees /tmp/seed<round>_<Cxx>, seeds <Cxx>_agent<round>).
# usage: tools/seed_round.sh worktrees <round> "C01 C02 ..."     create the scratch worktrees of /repo HEAD
#        tools/seed_round.sh verify    <round> "C01 ..."         confirm each seed in a fresh worktree (tools/seed_verify.sh) and copy it to seeded/
#        tools/seed_round.sh run       <round> "C01 ..." [tag]   run the quick check of the property against each kept seed (logs /tmp/seedrun_<tag>_<id>.log)
#        tools/seed_round.sh cleanup   <round> "C01 ..."         remove the scratch worktrees
V="$(cd "$(dirname "$0")/.." && pwd)"
CMD="$1"; R="$2"; LIST="$3"; TAG="${4:-final}"
for p in $LIST; do
  id="${p}_agent$R"; W="/tmp/seed${R}_$p"
  case "$CMD" in
    worktrees) git -C /repo worktree add --detach "$W" HEAD > /dev/null 2>&1 && mkdir -p "$W/seed" && echo "$W";;
    verify)    echo "=== $id"; "$V/tools/seed_verify.sh" "$id" "$p" "$W/seed" 2>&1 | tail -2;;
    run)       [ -d "$V/seeded/$id" ] || { echo "=== $id not in seeded/"; continue; }
               "$V/tools/seed_run.sh" "$id" "$p" quick > "/tmp/seedrun_${TAG}_$id.log" 2>&1; rc=$?
               echo "RUN[$TAG] $p $id exit $rc :: $(grep -A1 -m1 '^VIOLATION' "/tmp/seedrun_${TAG}_$id.log" | tail -1 | cut -c3-260)";;
    cleanup)   git -C /repo worktree remove --force "$W" > /dev/null 2>&1; rm -rf "$W";;
  esac
done
[ "$CMD" = cleanup ] && git -C /repo worktree prune
exit 0
