#!/usr/bin/env python3
"""Writes /verif/MANIFEST.json from the table below (kept in one place so that the manifest stays valid)."""
import json, os, sys
VERIF = os.path.dirname(os.path.dirname(os.path.abspath(__file__)))

PBT = 'property-based testing (rapidcheck)'
CHECKS = {
 'C01': dict(engine='units', technique=PBT + ': generated values x enumerated unit pairs against an exact symbol-expansion oracle (__float128)',
   text='Every ordered pair of declared units of all 37 unit types and 3 numeric types is enumerated; the value is generated (all binades, signs, zero, edges, temperature offsets). Each conversion (run-time dispatch, and ConvertStatically instantiated for ALL 14232 ordered pairs per numeric type) is compared with (x*F_from+O_from-O_to)/F_to, F and O obtained by expanding the unit\'s own symbol with an independent lexicon, within 8 ulp. Exploration: absence of a failing value is sampled, the unit/pair/type quantifier is exhausted.',
   note='Trusted: the unit lexicon (DESIGN Appendix A), __float128 arithmetic, the scanner reading enumerator names from the enum declarations.', ref='5 C01'),
 'C02': dict(engine='qty+units', technique=PBT + ': differential check of every conversion entry point against the scalar conversion; round trips',
   text='For every dimensional quantity type x unit x numeric type: Q(v,u), Create<u> (3 overloads), Value(u), StaticValue<u>, the numbers inside Print/JSON/XML/YAML(u), the container overloads (std::array<1..9>, std::vector, PlanarVector, Vector, SymmetricDyad, Dyad; copying, in-place, compile-time - the latter also between two non-standard units) agree slot by slot with the plain scalar Convert within 1 ulp; read-back in the same unit within 2 ulp; Convert(x,u,u) bit-exact for the standard unit; copying forms leave their argument unchanged.',
   note='Trusted: the scalar Convert as reference (validated by C01). Reading of "identity": within the rounding of the two legs for non-standard units.', ref='5 C02'),
 'C03': dict(engine='rel', technique=PBT + ': metamorphic relation (power-of-two rescaling of the seven base units) over a SFINAE-enumerated relation registry',
   text='Every operator (781 instances incl. number variants), compound assignment, constructor (316) and member relation (162) x 3 numeric types is found by SFINAE / header scan and enumerated; operands and an independent rescaling of the base units are generated; f(s(A)a, s(B)b) must equal s(C) f(a,b) with s from the declared dimension sets (exact, 2 ulp allowance); long double operands also beyond the range of double; an inf / NaN / 0 result from finite operands is re-examined in far-rescaled units (a representable result that the library loses is a violation). Type level: result dimensions = sum/difference/equal, exhaustive.',
   note='Trusted: the declared dimension sets (validated against the unit symbols by C06). Operand windows keep every intermediate in the normal range.', ref='5 C03'),
 'C04': dict(engine='rel', technique=PBT + ': reference model (IEEE operation on stored values), stateful histories of compound assignments, differential constructor/operator twins',
   text='Every operator instance is compared bit for bit with the IEEE operation of the same numeric type on the stored components in written order; contractions against the textbook formula; compound assignments against pure operators; histories of 1..24 interleaved +=,-=,*=,/= (also with the object as its own operand: x += x, x -= x, self assignment, move from a copy) against a plain array model and the pure-operator chain after every step; operands whose exact sum / product lies beside a rounding tie (double rounding through a wider type); constructors against their operator twins; std:: overloads of dimensionless scalars against std:: on the stored number.',
   note='Trusted: the harness is compiled without -ffast-math so that engine and library arithmetic are the same IEEE operations.', ref='5 C04'),
 'C05': dict(engine='rel', technique=PBT + ': round trip relation o inverse relation with measured conditioning',
   text='Inverse pairs are derived from the declared signatures (constructors/members with 1-4 arguments, operator pairs by algebra, planar embedding): about 2000 pairs per numeric type. A(C(a,b..),b..) must return a within 4(1+kappa) ulp, kappa measured per case by one-ulp perturbations; the planar embedding is bit-exact. A non-finite forward or inverse result from finite operands is re-examined in rescaled base units (dimensional homogeneity as oracle): if the result is representable there, the library lost it.',
   note='"A few ulps" is read relative to the measured conditioning of the composed map (DESIGN 4.6).', ref='5 C05'),
 'C06': dict(engine='symx+dims', technique='exhaustive enumeration against the symbol-expansion oracle + ' + PBT + ' for Dimensions printing/ordering/hash',
   text='Exhaustive: all 514 unit symbols expand (lexicon) to the dimension set their unit type declares; all 92 quantity types report the set of their unit type in 3 numeric types. Generated: Dimensions objects over the box [-1,1]^7 (all ordered pairs) and random tuples in [-9,9]^7 against a reference printer (Print, JSON, XML, YAML, stream), lexicographic order, hash and container oracle.',
   note='Trusted: the unit lexicon.', ref='5 C06'),
 'C07': dict(engine='symx+units', technique='exhaustive enumeration with exact rational arithmetic (tables) + ' + PBT + ' on generated values through the library\'s own conversions (value-level coherence) + stateful lookup histories against the single-lookup table',
   text='All 4 systems x 37 unit types: the consistent unit\'s exact SI magnitude (Fractions) equals the product of the system base units (read from the system\'s own abbreviation) raised to the type\'s dimension exponents; the standard system gives the standard units; RelatedUnitSystem for all 514 units equals the stated function of the forward table. Value level: for every unit type x numeric type x system a generated value in the consistent unit converts to/from the standard unit - through the run-time and the compile-time conversion - by exactly the product of the base units (4 ulp). Histories: 3..14 interleaved RelatedUnitSystem / ConsistentUnit lookups on one or two unit types (repeats, hit after miss) return what a single lookup in a fresh process returns.',
   note='Trusted: the unit lexicon. The table space is finite and is enumerated completely; the value quantifier is sampled.', ref='5 C07 and 0.2'),
 'C08': dict(engine='symx+enums+fuzz', technique='exhaustive enumeration against the lexicon + ' + PBT + ' string mutation + libFuzzer on ParseEnumeration',
   text='Exhaustive: every enumerator of the 39 enum declarations has a unique abbreviation, streams as it, parses back, has both conversion rows, and what the run-time conversion does with 0 and 1 in the unit is the affine map its abbreviation denotes; each of ~2050 accepted spellings denotes (lexicon, exact) the magnitude of the enumerator it parses to. Generated: single-edit mutations of spellings, random strings and (thorough) coverage-guided bytes must parse to nothing unless they are keys.',
   note='Trusted: the unit lexicon (it also knows the SI-brochure / SP 811 units the library lacks, so that an added unit is decidable); ambiguous atoms (lb, C, NM, as ...) accept any alternative of matching dimensions.', ref='5 C08'),
 'C09': dict(engine='math', technique=PBT + ' + exhaustive integer grids against index-notation references',
   text='71 operations of the four vector/tensor types x 3 numeric types: exhaustive small-integer grids (bit-exact), random integers in [-64,64] (bit-exact), reals over +-40 binades (4 ulp of the sum of |terms|), inverse presence = exact determinant non-zero, A*A^-1 = I within 16 cond eps, symmetric/planar types against their embeddings (incl. presence of the inverse for exactly singular real tensors); in-place scaling by a reference to an own component; every binary operation with both operands the same object.',
   note='Trusted: textbook formulas evaluated in __float128.', ref='5 C09'),
 'C10': dict(engine='rel+dir', technique=PBT + ': validity predicate (unit length, parallel) and metamorphic rescaling',
   text='Every construction path of Direction/PlanarDirection and all 17 vector quantity types: unit length within 4 ulp, components within 4 ulp of v_i/|v|, bit-invariant under power-of-two rescaling, zero -> +0; Magnitude type and value (3 ulp), typed component accessors bit-equal, magnitude x direction rebuilds within 4 ulp.',
   note='Input lengths inside the stated range with the guard band min_normal 2^(p+2).', ref='5 C10'),
 'C11': dict(engine='rel+dir', technique=PBT + ': generator concentrated on (anti)parallel pairs; reference atan2 in __float128',
   text='The 8 angle kernels (constructor and member form) and all quantity-level angle relations x 3 numeric types: never NaN, in [0, pi], symmetric, independent of lengths (bit-exact for powers of two), within 6 sqrt(eps) of atan2(|a x b|, a.b); direction operands are also taken out of the converting constructor from a float direction.',
   note='Arguments are non-zero and inside the non-overflowing range.', ref='5 C11'),
 'C12': dict(engine='model', technique=PBT + ': reference model (closed-form isotropic elasticity in __float128), round trips with measured conditioning, differential virtual/direct and overload checks, stateful histories on one model object against a fresh model',
   text='20 constructors x 7 accessors x 3 numeric types; materials over +-40 binades of stiffness and nu in [0, 0.5) incl. nu = 0 and nu -> 0.5; identities within 4 ulp, rebuild from every reported pair within 8(1+kappa) ulp, stress formula, strain inverse, ignored arguments, zero results, overload agreement, virtual = direct. Histories of queries, copy-/move-assignments and copy-/move-constructions on one object: every answer bit-identical to a freshly constructed model of the current material.',
   note='(lambda, nu) at nu = 0 excluded (singular parametrisation).', ref='5 C12'),
 'C13': dict(engine='model', technique=PBT + ': reference model, round trip, linearity (metamorphic), stateful histories on one model object against a fresh model',
   text='Both fluid classes x 3 model types x 3 overloads, direct and virtual: sigma = 2 mu D (+ mu_b tr D I) within 6 ulp of the sum of |terms|, inverse within 8(1+kappa) ulp, strain arguments ignored, zero results exact, mu-only constructor gives +0 bulk viscosity, linearity; histories of queries and (re)assignments on one object answer like a fresh model of the current viscosities.',
   note='-', ref='5 C13'),
 'C14': dict(engine='qty+math+model+dims', technique=PBT + ': lexicographic reference order, hash/equality, std::set/unordered_set model',
   text='All 92 quantity types, the 4 vector/tensor types, Dimensions and the 3 model classes x 3 numeric types: six operators equal the lexicographic IEEE comparison of the stored components on triples with forced ties, +-0, +-inf; equal => equal hash; collections in ordered and unordered containers.',
   note='No NaN components.', ref='5 C14'),
 'C15': dict(engine='qty', technique=PBT + ' + exhaustive enumeration of all 2^32 float bit patterns (thorough); round trip print -> parse; reference formatter; strict JSON parser',
   text='Number level: thorough = every float bit pattern; quick = every 997th + boundary neighbourhoods + stratified random doubles/long doubles: notation, max_digits10+1 significant digits, bit-exact parse-back. Composite level: Print/JSON/XML/YAML/<< of every quantity type and unit equal a reference formatter; JSON accepted by an RFC 8259 parser with bit-exact fields; the four vector/tensor types likewise. A failure that depends on earlier calls in the same process (a cached string, a function-local static) is confirmed by repeating its deterministic engine run.',
   note='Finite normal numbers.', ref='5 C15'),
 'C16': dict(engine='qty+math', technique=PBT + ': reference model (static_cast per slot), round trip widen -> narrow',
   text='92 quantity types + 4 math types x 6 ordered numeric-type pairs x {converting constructor, converting assignment}: slot i has the bits of static_cast<T2>(slot i), also for components on / beside rounding ties of the target type (double rounding) and for assignments into a target that already holds nearly the same value; widen-narrow identity; directions within 2 ulp (coarser type) of the cast and unit length.',
   note='Narrowing only inside the finite range of the narrower type (otherwise UB in C++).', ref='5 C16'),
 'C17': dict(engine='qty', technique='exhaustive static facts reported at run time + ' + PBT + ' stateful mutator histories against an array model',
   text='All 276 instantiations: sizeof = n*sizeof(T), alignof, trivially copyable, standard layout, not polymorphic, Zero() = +0; memcpy of raw number arrays over quantity arrays; histories of SetValue/MutableValue/Mutable_c/Set_c/copy/move/memcpy (including steps that only flip the signs of zeros) against a plain array, bit for bit.',
   note='-', ref='5 C17'),
 'C18': dict(engine='rel', technique=PBT + ': fixed table of textbook formulas (__float128) looked up by name in the relation registry',
   text='83 named definitional relations x 3 numeric types (dynamic/total/static pressure, sound speed x3, Mach, Reynolds and Prandtl in every solved form, gamma, R, thermal diffusivity, kinematic viscosity, period, strain and strain rate, thermal strains, von Mises, traction, -p I): within 4 ulp (sums: of the sum of |terms|).',
   note='Rows absent from the tree are listed in the evidence, not failed.', ref='5 C18'),
 'C19': dict(engine='progs', technique='generated programs (seeded grammar-based generator) with namespace-scope probes, differential before-main vs in-main, two compilers x two optimisation levels',
   text='Small multi-TU programs with namespace-scope probes over every table-backed facility are generated - plus enumerated sweep programs: every table facility x every unit type, every spelling (and separator variant) of the unit-system and model-type enumerations, as ordinary and as inline user objects - built with g++ and clang++ at -O0 and -O2, and every value computed before main() is compared with the same expression inside main().',
   note='Explores the initialisation orders the two installed compilers emit; the GCC conversion-dispatch defect is a listed known finding.', ref='5 C19'),
 'C20': dict(engine='san+fuzz', technique='the generators of all other properties re-run under ASan+UBSan+libstdc++ assertions; libFuzzer with differential oracles on the two parsers',
   text='Every library table is walked and every rapidcheck property is re-run in a sanitizer build (address, undefined incl. enum/overflow/bounds, _GLIBCXX_ASSERTIONS) with any exception other than bad_alloc recorded; ParseNumber<float|double|long double> and ParseEnumeration<E> (39 types) are fuzzed on arbitrary bytes against strtof/strtod/strtold and the key sets; remaining public members (Dimensions serialisations, whole-array accessors/mutators of the math types) are swept against simple models; valgrind memcheck pass for uninitialised reads.',
   note='Bounded by what ASan/UBSan/libstdc++ assertions can observe; MSan is not usable here.', ref='5 C20'),
}

def main():
    claimed = sys.argv[1:] or sorted(CHECKS)
    checks = []
    for pid in sorted(CHECKS):
        if pid not in claimed: continue
        c = CHECKS[pid]
        checks.append(dict(property_id=pid, quick_cmd='bin/check %s quick' % pid, thorough_cmd='bin/check %s thorough' % pid, evidence_file='evidence/%s.json' % pid,
                           replay_cmd_template='bin/check --replay {path}', engine=c['engine'],
                           level_claimed=dict(category='exploration', text=c['text'], design_ref='DESIGN.md section ' + c['ref']), level_note=c['note'], technique=c['technique']))
    na = [dict(property_id=p, reason='check under construction in this session; not claimed until it runs end to end') for p in sorted(CHECKS) if p not in claimed]
    m = dict(version=1, setup_cmd='bin/setup',
             hooks=dict(guard='PHQ_VERIF', enable='no hooks are needed: the checks read phq through its public API and the PhQ::Internal tables; nothing in /repo is guarded',
                        baseline_off_cmd='cmake --build /repo/_build -j16 && ctest --test-dir /repo/_build -j8 --timeout 900', source_commits=[], add_only=True),
             engines=[dict(name='units', path='src/units_engine.cpp', serves_properties=['C01', 'C02'], kind_free_text='rapidcheck engine + unit registry'),
                      dict(name='qty', path='src/qty_engine.cpp', serves_properties=['C02', 'C14', 'C15', 'C16', 'C17'], kind_free_text='rapidcheck engine + type-erased quantity registry (92 types x 3 numeric types)'),
                      dict(name='rel', path='src/rel_engine.cpp', serves_properties=['C03', 'C04', 'C05', 'C10', 'C11', 'C18'], kind_free_text='rapidcheck engine + relation registry (SFINAE over all ordered pairs of quantity types)'),
                      dict(name='math', path='src/math_engine.cpp', serves_properties=['C09', 'C14', 'C16'], kind_free_text='rapidcheck + exhaustive grids on the vector/tensor types'),
                      dict(name='dir', path='src/dir_engine.cpp', serves_properties=['C10', 'C11'], kind_free_text='rapidcheck on direction construction paths and angle kernels'),
                      dict(name='model', path='src/model_engine.cpp', serves_properties=['C12', 'C13', 'C14'], kind_free_text='rapidcheck on the constitutive models'),
                      dict(name='symx', path='tools/symx.py', serves_properties=['C06', 'C07', 'C08', 'C01'], kind_free_text='introspection dump + exact symbol expander (Fractions)')],
             checks=checks, not_applicable=na,
             notes='bin/check <Cxx> <quick|thorough> rebuilds what it needs from /repo\'s current include/ tree (content-hashed build cache under /verif/build). VERIF_SEED selects the seed. Exit 0 held / 1 VIOLATION / 2 ERROR.')
    json.dump(m, open(os.path.join(VERIF, 'MANIFEST.json'), 'w'), indent=1)
    print('wrote MANIFEST.json with %d checks, %d not claimed' % (len(checks), len(na)))

if __name__ == '__main__':
    main()
