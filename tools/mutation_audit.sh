#!/bin/bash
# Sensitivity audit: every mutant in mutants/ is applied to a scratch copy of the tree and the quick check of the property in its file name is run
# against it.  Cxx_*: a VIOLATION is required (CAUGHT / MISSED).  EQUIV_Cxx_*: the change keeps the property, the check must stay quiet (QUIET / FALSE-ALARM).
# usage: tools/mutation_audit.sh [pattern]        results: mutants/AUDIT_RESULTS.txt
V="$(cd "$(dirname "$0")/.." && pwd)"
PAT="${1:-}"
OUT="$V/mutants/AUDIT_RESULTS.txt"; [ -z "$PAT" ] && : > "$OUT"
for M in "$V"/mutants/*.sed "$V"/mutants/*.diff; do
  [ -f "$M" ] || continue
  B=$(basename "$M"); case "$B" in *"$PAT"*) ;; *) continue;; esac
  EQ=0; N="$B"; case "$B" in EQUIV_*) EQ=1; N="${B#EQUIV_}";; esac
  P="${N%%_*}"
  LOG=$(mktemp)
  "$V/tools/mutate.sh" "$M" "$P" quick > "$LOG" 2>&1; RC=$?
  FIRST=$(grep -A1 -m1 '^VIOLATION' "$LOG" | tail -1 | cut -c1-220)
  if [ $EQ = 1 ]; then [ $RC = 0 ] && R="QUIET (property still holds, as intended)" || R="FALSE-ALARM rc=$RC $FIRST"
  else [ $RC = 1 ] && R="CAUGHT $FIRST" || R="MISSED rc=$RC $(tail -1 "$LOG" | cut -c1-160)"; fi
  echo "$B $P $R" | tee -a "$OUT"
  rm -f "$LOG"
done
